"""C13 - All backends behave as the same simple object store.

Decides: interface conformance of all adapters; pagination def-use; prefix
forwarded to every page; relative names computed from the scan root;
idempotent-delete flags; object name -> URL only through quoting, raw name in
JSON bodies.  Not decided: equivalence with a dict model over histories."""
from __future__ import annotations

import ast

from ..cfg import armed_path, cfg_of, deref_at
from ..astutil import deref, ancestors, calls_in, const_value, dotted, enclosing_stmt, handler_catches, is_within, kwarg, src, walk_local
from ..loader import AnalysisError
from ..terms import Env, Evaluator, alts, contains, find, show, strip_sites, walk
from .backends import INTERFACE, backend_classes, own_methods
from .common import func_label, loc

EXPLANATION = (
    'Table agreement between every adapter class and the Backend interface (all abstract methods defined, same positional parameters and defaults); loop-carried '
    'def-use of the continuation state in the two paginated listings (next token/file name read from the current response, loop ends only on the service\'s end '
    'marker, every page yielded before continuing); provenance of the prefix sent with every page request (unconditional on the continuation state) and of the '
    'offset that turns absolute local paths into object names (length of the scan root itself); idempotence constants of the delete methods; taint rule: an object '
    'name reaches a request URL or the B2 file-name header only through urllib.parse.quote, and reaches JSON bodies unquoted. Rules C13.R1-R5.'
    ' Added with the seeded-defect rounds: flag-sensitive pagination rule on the CFG, Local prefix scan on every path and links followed, B2 bucket record from the API fields, download_stream cuts the destination before the first write (length of the open descriptor), wrappers forward *args/**kwargs, local listing error discipline.'
    ' Round 6: error hooks read the response body on every path, iter_chunks ends on an empty read only, list_files translates os.sep only, adapter delete discipline.'
)
NOT_DECIDED = 'equality with a name->bytes map over operation histories, page-count independence, B2 hide-marker semantics (needs the services or fakes to execute)'
TRUSTED = ['urllib.parse.quote percent-encodes every character outside the unreserved set and "/"', 'the services\' listing semantics', 'CPython ast']
ASSUMPTIONS = ['no object name is a directory prefix of another (property text)']


def r1_conformance(ctx):
    corpus = ctx.corpus
    base = corpus.cls('base', 'Backend')
    abstract = [n for n, f in base.methods.items() if any(d.endswith('abstractmethod') for d in f.decorator_names())]
    ctx.require(set(INTERFACE) <= set(abstract), f'C13.R1: abstract interface changed: {abstract}')
    for ci in backend_classes(corpus):
        methods = own_methods(corpus, ci)
        for m in abstract:
            f = methods.get(m)
            b = base.methods[m]
            if f is None:
                ctx.fail('C13.R1', f'{ci.module.rel}|{ci.name}|implements:{m}', f'{ci.module.rel}:{ci.node.lineno}', f'{ci.name} does not implement the interface method `{m}`')
                continue
            ctx.analysed(f)
            fa, ba = f.node.args, b.node.args
            fp = [a.arg for a in fa.args]
            bp = [a.arg for a in ba.args]
            fd = [ast.dump(d) for d in fa.defaults]
            bd = [ast.dump(d) for d in ba.defaults]
            ctx.check(
                fp == bp and fd == bd,
                'C13.R1',
                f'{func_label(f)}|signature-matches-interface',
                loc(f, f.node),
                f'{ci.name}.{m}({", ".join(fp[1:])}) matches the interface (names, order, defaults)',
                f'{ci.name}.{m}({", ".join(fp[1:])}) deviates from Backend.{m}({", ".join(bp[1:])}) (positional parameters / defaults): the repository calls it positionally',
            )
    # every adapter module exposes Client
    for short in ('local', 's3c', 's3', 'b2'):
        m = corpus.module(short)
        ctx.check('Client' in m.assigns or 'Client' in m.classes, 'C13.R1', f'{m.rel}|exposes-client', m.rel, f'{m.rel} exposes `Client`', f'{m.rel} no longer exposes `Client` (load_backend cannot find the adapter)')


def _const_atoms(test):
    """[(ast.dump(other side), constant, positive)] for the ==/!= comparisons with a literal in a test, plus the
    connective under which they appear ('and' | 'or' | 'one' | None when the shape is not a plain conjunction/disjunction)"""
    def atom(e):
        neg = False
        while isinstance(e, ast.UnaryOp) and isinstance(e.op, ast.Not):
            e, neg = e.operand, not neg
        if isinstance(e, ast.Compare) and len(e.ops) == 1 and isinstance(e.ops[0], (ast.Eq, ast.NotEq)):
            l, r = e.left, e.comparators[0]
            if isinstance(l, ast.Constant):
                l, r = r, l
            if isinstance(r, ast.Constant):
                return (ast.dump(l), r.value, isinstance(e.ops[0], ast.Eq) != neg)
        return None

    if isinstance(test, ast.BoolOp):
        ats = [atom(v) for v in test.values]
        return ats, ('and' if isinstance(test.op, ast.And) else 'or')
    return [atom(test)], 'one'


def _edge_facts(if_node):
    """constants known to be matched on the true / false edge of an `if`: ({consts on true}, {consts on false})"""
    ats, conn = _const_atoms(if_node.test)
    t, f = set(), set()
    if conn in ('and', 'one'):
        t = {a[1] for a in ats if a is not None and a[2]}
        if conn == 'one':
            f = {a[1] for a in ats if a is not None and not a[2]}
    if conn == 'or':
        f = {a[1] for a in ats if a is not None and not a[2]}
    return t, f


def _nodes_under_consts(fn_node, cfg, wanted):
    """edge nodes (true/false nodes of ifs) on which every constant of `wanted` is known to have matched, counting the
    enclosing ifs: `if tag == 'IsTruncated' and text == 'false'` and the nested two-if spelling give the same edge"""
    out = []
    for i in walk_local(fn_node):
        if not isinstance(i, ast.If):
            continue
        for edge, facts in zip(('true', 'false'), _edge_facts(i)):
            have = set(facts)
            child = i
            for anc in ancestors(i):
                if isinstance(anc, ast.If):
                    t, f = _edge_facts(anc)
                    have |= t if any(x is child for x in anc.body) else f if any(x is child for x in anc.orelse) else set()
                if isinstance(anc, (ast.FunctionDef, ast.AsyncFunctionDef)):
                    break
                child = anc
            if wanted <= have and facts & wanted:
                out += cfg.nodes_of(i, edge)
    return out


def _under_const(node, const):
    """the statement sits on an edge where a comparison with `const` matched"""
    child = node
    for anc in ancestors(node):
        if isinstance(anc, ast.If):
            t, f = _edge_facts(anc)
            if any(x is child for x in anc.body) and const in t:
                return True
            if any(x is child for x in anc.orelse) and const in f:
                return True
        if isinstance(anc, (ast.FunctionDef, ast.AsyncFunctionDef)):
            break
        child = anc
    return False


def _is_marker(fn_node, e, key):
    d = deref_at(fn_node, e) if isinstance(e, ast.Name) else e
    if isinstance(d, ast.Subscript) and isinstance(d.slice, ast.Constant) and d.slice.value == key:
        return True
    return isinstance(d, ast.Call) and isinstance(d.func, ast.Attribute) and d.func.attr == 'get' and len(d.args) == 1 and isinstance(d.args[0], ast.Constant) and d.args[0].value == key


def _marker_none_edges(fn_node, cfg, key):
    """edge nodes on which `<page>[key]` is known to be None (the listing is complete)"""
    out = []
    for i in walk_local(fn_node):
        if not isinstance(i, (ast.If, ast.While)):
            continue
        t, neg = i.test, False
        while isinstance(t, ast.UnaryOp) and isinstance(t.op, ast.Not):
            t, neg = t.operand, not neg
        if isinstance(t, ast.Compare) and len(t.ops) == 1 and isinstance(t.comparators[0], ast.Constant) and t.comparators[0].value is None and _is_marker(fn_node, t.left, key):
            if isinstance(t.ops[0], (ast.Is, ast.Eq)):
                out += cfg.nodes_of(i, 'false' if neg else 'true')
            elif isinstance(t.ops[0], (ast.IsNot, ast.NotEq)):
                out += cfg.nodes_of(i, 'true' if neg else 'false')
        elif _is_marker(fn_node, t, key):
            out += cfg.nodes_of(i, 'true' if neg else 'false')
    return out


def _page_requests(fn):
    """(loop, call) pairs: awaited calls of a private method of the adapter inside a loop of the listing"""
    out = []
    for lp in walk_local(fn.node):
        if isinstance(lp, (ast.While, ast.For, ast.AsyncFor)):
            for c in calls_in(lp):
                d = dotted(c.func) or ''
                if d.startswith('self._') and c.keywords and not any(o is not lp and isinstance(o, (ast.While, ast.For, ast.AsyncFor)) and is_within(c, o) and is_within(o, lp) for o in walk_local(lp)):
                    out.append((lp, c))
    return out


def _describe(path, fn):
    return ' -> '.join(f'{n.kind}@{n.lineno}' for n in path if n.lineno)[:300]


def r2_pagination(ctx):
    corpus = ctx.corpus
    for cls_mod, cls_name, label, token_key, in (('s3c', 'S3Compatible', 'S3', None), ('b2', 'B2', 'B2', 'nextFileName')):
        ci = corpus.cls(cls_mod, cls_name)
        lf = ci.methods.get('list_files')
        if lf is None:
            raise AnalysisError(f'C13.R2: {cls_name}.list_files missing')
        ctx.analysed(lf)
        fn = lf.node
        cfg = cfg_of(fn)
        # the continuation argument: a keyword of the page request that is None for the first page (whether it is ever
        # advanced is what the next obligation decides)
        reqs = [(lp, c) for lp, c in _page_requests(lf) if _loop_carried_kw(lf, lp, c, need_reassigned=False) is not None]
        ctx.floor('C13.R2', f'{label} page request with a continuation argument', len(reqs))
        lp, req = reqs[0]
        tok = _loop_carried_kw(lf, lp, req, need_reassigned=False)
        assigns = [a for a in walk_local(lp) if isinstance(a, ast.Assign) and any(isinstance(t, ast.Name) and t.id == tok for t in a.targets)]
        if label == 'S3':
            def from_marker(a):
                v = deref_at(fn, a.value) if isinstance(a.value, ast.Name) else a.value
                return isinstance(v, ast.Attribute) and v.attr == 'text' and _under_const(a, 'NextContinuationToken')
            okc = bool(assigns) and all(from_marker(a) for a in assigns)
            ctx.check(okc, 'C13.R2', f'{func_label(lf)}|s3-token-loop-carried', loc(lf, lp), f'S3 listing: the continuation token passed to the next page request is `{tok}`, re-assigned inside the loop only from the NextContinuationToken element of the current page', 'S3 listing: the continuation token sent with the next request is not taken from the current response (pages are repeated or skipped)')
            ends = _nodes_under_consts(fn, cfg, {'IsTruncated', 'false'})
        else:
            okc = bool(assigns) and all(_is_marker(fn, a.value, token_key) for a in assigns)
            dec_ok = any(isinstance(a, ast.Assign) and isinstance(a.value, ast.Call) and isinstance(a.value.func, ast.Attribute) and a.value.func.attr == 'json' for a in walk_local(lp))
            ctx.check(okc and dec_ok, 'C13.R2', f'{func_label(lf)}|b2-start-loop-carried', loc(lf, lp), 'B2 listing: startFileName of the next request is nextFileName of the current page', 'B2 listing: the next request does not start at nextFileName of the current page')
            ends = _marker_none_edges(fn, cfg, token_key)
        # (no test on the end marker at all: every way out of the generator is then an end without the marker - reported below)
        rst = enclosing_stmt(req)
        rnodes = cfg.nodes_of(rst, 'ok') or cfg.nodes_of(rst, 'stmt')
        # 1. the listing ends only on the end marker: after a page request, no way out of the function that does not
        #    pass the edge on which the response said "complete" (flag locals are followed: `done = True ... if done: return`)
        early = armed_path(cfg, fn, rnodes, ends, [cfg.exit])
        ctx.check(
            early is None,
            'C13.R2',
            f'{func_label(lf)}|{label.lower()}-terminates-on-marker',
            loc(lf, lp),
            f'{label} listing: after a page request the generator finishes only through the edge on which the response marked the listing complete ({"IsTruncated == false" if label == "S3" else "nextFileName is None"})',
            f'{label} listing: the listing can end without the response having marked it complete (e.g. an empty page, a wrong flag): later files are not listed; path {_describe(early or [], lf)}',
        )
        # 2. a page's names are reported before the listing goes on or ends
        ys = [n for n in walk_local(lp) if isinstance(n, ast.Yield)]
        yloops = [a for y in ys for a in ancestors(y) if isinstance(a, (ast.For, ast.AsyncFor)) and is_within(a, lp) and a is not lp]
        yheads = [n for l_ in yloops for n in cfg.nodes_of(l_, 'loop')]
        ctx.floor('C13.R2', f'{label} loop that yields the names of a page', len(yheads))
        unreported = armed_path(cfg, fn, rnodes, yheads, [cfg.exit] + cfg.nodes_of(rst, 'stmt'))
        ctx.check(unreported is None, 'C13.R2', f'{func_label(lf)}|{label.lower()}-yields-before-continuing', loc(lf, lp), f"{label} listing: the page's names are yielded before the continuation is followed or the listing ends", f"{label} listing: a page's names are not yielded (the last page, or a page before the next request); path {_describe(unreported or [], lf)}")
        # 3. no element of the page is passed over
        for y in ys:
            yst = enclosing_stmt(y)
            inner = [a for a in ancestors(y) if isinstance(a, (ast.For, ast.AsyncFor)) and is_within(a, lp) and a is not lp]
            if not inner:
                continue
            il = inner[0]
            early_out = [n for n in walk_local(il) if isinstance(n, (ast.Break, ast.Return))]
            if label == 'S3':
                v = deref_at(fn, y.value) if isinstance(y.value, ast.Name) else y.value
                ok = isinstance(v, ast.Attribute) and v.attr == 'text' and _under_const(yst, 'Key') and not early_out
                ctx.check(ok, 'C13.R2', f'{func_label(lf)}|s3-yields-every-key', loc(lf, yst), 'S3 listing: the text of every Key element of every page is yielded; the element loop has no early exit', 'S3 listing: keys can be dropped (early exit from the element loop / transformed yield / yield not under the Key test)')
            else:
                ynodes = cfg.nodes_of(yst, 'stmt')
                heads = cfg.nodes_of(il, 'loop')
                skip = None
                for t in cfg.nodes_of(il, 'true'):
                    skip = skip or cfg.path(t, heads, avoid=ynodes, kinds=('normal',))
                ctx.check(
                    skip is None and not early_out,
                    'C13.R2',
                    f'{func_label(lf)}|b2-yields-every-name',
                    loc(lf, yst),
                    'B2 listing: every fileName of every page is yielded (no iteration of the file loop passes over the yield, no early exit)',
                    'B2 listing: a listed name can be passed over without being reported (a condition / `continue` / early exit in the file loop): live objects can be missing from the listing (e.g. one name per page boundary)',
                )


def _loop_carried_kw(fn, loop, call, need_reassigned=True):
    """The keyword argument of the page request whose value is a local that is
    initialised to None before the loop and re-assigned inside it."""
    for k in call.keywords:
        if isinstance(k.value, ast.Name):
            nm = k.value.id
            init_none = any(isinstance(a, ast.Assign) and any(isinstance(t, ast.Name) and t.id == nm for t in a.targets) and isinstance(a.value, ast.Constant) and a.value.value is None and not is_within(a, loop) for a in walk_local(fn.node))
            reassigned = any(isinstance(a, ast.Assign) and any(isinstance(t, ast.Name) and t.id == nm for t in a.targets) for a in walk_local(loop))
            if init_none and (reassigned or not need_reassigned):
                return nm
    return None


def r3_prefix(ctx):
    corpus = ctx.corpus
    for cname, short, helper, token in (('S3Compatible', 's3c', '_list_objects', None), ('B2', 'b2', '_list_file_names', None)):
        ci = corpus.cls(short, cname)
        lf, hp = ci.methods.get('list_files'), ci.methods.get(helper)
        if hp is not None:
            kwo = [a.arg for a in hp.node.args.kwonlyargs if a.arg != 'prefix']
            token = kwo[0] if kwo else None
        if lf is None or hp is None:
            raise AnalysisError(f'C13.R3: {cname}.list_files / {helper} missing')
        ctx.analysed(lf, hp)
        # list_files passes its prefix parameter, unchanged, on every request (the single call site in the loop)
        calls = [c for c in calls_in(lf.node) if dotted(c.func) == f'self.{helper}']
        ctx.floor('C13.R3', f'{cname}: page request call', len(calls))
        for c in calls:
            pk = kwarg(c, 'prefix')
            in_loop = any(isinstance(a, ast.While) for a in ancestors(c))
            ctx.check(isinstance(pk, ast.Name) and pk.id == 'prefix' and in_loop, 'C13.R3', f'{func_label(lf)}|prefix-passed-on-every-page', loc(lf, c), f'{cname}.list_files passes prefix=prefix with every page request', f'{cname}.list_files does not pass its prefix (unchanged) with every page request')
        # the helper puts it into the request unconditionally w.r.t. the continuation state
        stores = []
        for n in walk_local(hp.node):
            if isinstance(n, ast.Assign):
                for t in n.targets:
                    if isinstance(t, ast.Subscript) and isinstance(t.slice, ast.Constant) and t.slice.value == 'prefix':
                        stores.append((n, n.value))
            if isinstance(n, ast.Dict):
                for k, v in zip(n.keys, n.values):
                    if isinstance(k, ast.Constant) and k.value == 'prefix':
                        stores.append((n, v))
        ctx.floor('C13.R3', f'{cname}: prefix placed into the request', len(stores))
        for st, v in stores:
            unchanged = isinstance(v, ast.Name) and v.id == 'prefix'
            bad_guard = None
            cur = st
            for a in ancestors(st):
                if isinstance(a, ast.If):
                    names = {x.id for x in ast.walk(a.test) if isinstance(x, ast.Name)}
                    in_else = any(is_within(st, s) for s in a.orelse)
                    if token in names or (in_else and any(token in {x.id for x in ast.walk(aa.test) if isinstance(x, ast.Name)} for aa in [a])):
                        bad_guard = a
                    # orelse of an if that tests the token
                    if in_else and token in names:
                        bad_guard = a
                if a is hp.node:
                    break
            ctx.check(
                unchanged and bad_guard is None,
                'C13.R3',
                f'{func_label(hp)}|prefix-sent-regardless-of-continuation',
                loc(hp, st),
                f'{cname}.{helper}: the request carries the caller\'s prefix whether or not a continuation is given',
                f'{cname}.{helper}: the prefix is {"transformed" if not unchanged else "sent only depending on the continuation state"}: continuation pages may return names outside the prefix',
            )
    # Local: the name returned is the scanned path with the scan root removed
    lc = corpus.cls('local', 'Local')
    lf = lc.methods.get('list_files')
    init = lc.methods.get('__init__')
    ctx.analysed(lf, init)
    ev0 = Evaluator(corpus, depth=2)
    ev0.run(init)
    preset = {k: v for k, v in ev0.entry_env.vars.items() if k.startswith('self.')}
    ev = Evaluator(corpus, depth=3)
    cenv = Env()
    cenv.vars.update(preset)
    ev.envs[id(cenv)] = cenv
    r = ev.inline(lf, [], [], ('self', ev.clskey(lc)), cenv, entry=True)
    root = preset.get('self.path')
    if root is None:
        raise AnalysisError('C13.R3: Local.__init__ does not set self.path')
    yielded = r[1] if r[0] == 'gen' else None
    ok = False
    why = show(yielded, limit=160) if yielded else 'no yield'
    if yielded is not None:
        for y in alts(yielded):
            y = strip_sites(y)
            if y[0] == 'sub' and y[2][0] == 'slice':
                lo = y[2][1]
                lens = find(lo, lambda t: t[0] == 'call' and t[1] == ('name', 'len') and len(t[2]) == 1)
                if lens:
                    inner = lens[0][2][0]
                    conv = inner[0] == 'call' and inner[1] in (('name', 'str'), ('name', 'os.fspath')) and len(inner[2]) == 1
                    ok = conv and strip_sites(inner[2][0]) == strip_sites(root) and lo[0] == 'bin' and lo[1] == 'Add' and ('const', 1) in (lo[2], lo[3])
                    if not ok:
                        why = f'offset {show(lo, limit=100)} is not len(str(<the scan root self.path = {show(root, limit=40)}>)) + 1'
    # the scan root is the same self.path
    scan_ok = any(isinstance(n, ast.BinOp) and isinstance(n.op, ast.Div) and dotted(n.left) == 'self.path' for n in ast.walk(lf.node))
    ctx.check(
        ok and scan_ok,
        'C13.R3',
        f'{func_label(lf)}|local-names-relative-to-scan-root',
        loc(lf, lf.node),
        'Local.list_files: returned names are the scanned paths with exactly the (normalised) scan root self.path and one separator removed',
        f'Local.list_files: {why}: for some spellings of the repository location listed names lose or keep characters',
    )
    # prefix split: directory part is scanned, base part filters, both from the same parameter
    sp = [a for a in walk_local(lf.node) if isinstance(a, ast.Assign) and isinstance(a.value, ast.Call) and dotted(a.value.func) == 'os.path.split' and a.value.args and isinstance(a.value.args[0], ast.Name) and a.value.args[0].id == 'prefix']
    ctx.check(len(sp) == 1, 'C13.R3', f'{func_label(lf)}|local-prefix-split', loc(lf, lf.node), 'Local.list_files: directory to scan and base-name filter both come from os.path.split(prefix)', 'Local.list_files no longer derives the scan directory and the name filter from the same prefix')


def r4_idempotent_delete(ctx):
    corpus = ctx.corpus
    lc = corpus.cls('local', 'Local')
    d = lc.methods.get('delete')
    ctx.analysed(d)
    un = [c for c in calls_in(d.node) if isinstance(c.func, ast.Attribute) and c.func.attr == 'unlink']
    ctx.floor('C13.R4', 'Local.delete unlink', len(un))
    for c in un:
        mo = kwarg(c, 'missing_ok')
        ctx.check(mo is not None and const_value(mo) is True, 'C13.R4', f'{func_label(d)}|local-delete-idempotent', loc(d, c), 'Local.delete: unlink(missing_ok=True)', 'Local.delete fails for an object that is already gone (delete is not idempotent)')
    b2 = corpus.cls('b2', 'B2')
    bd = b2.methods.get('delete')
    ctx.analysed(bd)
    codes = set()
    cfg = cfg_of(bd.node)
    tolerated_only = True
    can_tolerate = False
    nh = 0
    for t in walk_local(bd.node):
        if isinstance(t, ast.Try):
            for h in t.handlers:
                if any(x.endswith('HTTPStatusError') for x in handler_catches(h)):
                    nh += 1
                    member_ifs = []
                    for n in ast.walk(h):
                        if isinstance(n, ast.If):
                            tt0 = deref(bd.node, n.test)
                            for tt in [tt0] + (list(tt0.values) if isinstance(tt0, ast.BoolOp) and isinstance(tt0.op, ast.And) else []):
                                if isinstance(tt, ast.Compare) and len(tt.ops) == 1 and isinstance(tt.ops[0], ast.In) and isinstance(tt.comparators[0], (ast.Tuple, ast.Set, ast.List)):
                                    codes |= {e.value for e in tt.comparators[0].elts if isinstance(e, ast.Constant)}
                                    member_ifs.append(n)
                    trues = [x for n in member_ifs for x in cfg.nodes_of(n, 'true')]
                    for hn in cfg.nodes_of(h, 'handler'):
                        # a status error is swallowed (the call completes normally) only through the "code is tolerated" edge
                        if cfg.path(hn, [cfg.exit], avoid=trues) is not None:
                            tolerated_only = False
                        if cfg.path(hn, [cfg.exit]) is not None:
                            can_tolerate = True
    returns_in_handler = can_tolerate
    reraises = tolerated_only and nh > 0
    ctx.check(codes == {'already_hidden', 'no_such_file'} and returns_in_handler and reraises, 'C13.R4', f'{func_label(bd)}|b2-delete-idempotent', loc(bd, bd.node), "B2.delete tolerates exactly the 'already_hidden' / 'no_such_file' answers and re-raises everything else", f'B2.delete tolerance changed (codes {sorted(codes)}, re-raises: {reraises})')


def _quoted(t, name_param):
    """t contains the name only inside urllib.parse.quote(...)"""
    raw = False
    quoted = False

    def rec(x, inq):
        nonlocal raw, quoted
        if isinstance(x, frozenset):
            for y in x:
                rec(y, inq)
            return
        if not isinstance(x, tuple) or not x:
            return
        if isinstance(x[0], str):
            if x == ('param', name_param):
                if inq:
                    quoted = True
                else:
                    raw = True
                return
            if x[0] == 'call' and x[1] in (('name', 'urllib.parse.quote'), ('name', 'quote')):
                for y in x[2]:
                    rec(y, True)
                return
            if x[0] in ('const', 'name', 'module', 'self', 'func', 'closure', 'lambda', 'class', 'opaque'):
                return
            for y in x[1:]:
                if isinstance(y, (tuple, frozenset)):
                    rec(y, inq)
        else:
            for y in x:
                rec(y, inq)

    rec(t, False)
    return quoted, raw


def r5_quoting(ctx):
    corpus = ctx.corpus
    n = 0
    # B2
    b2 = corpus.cls('b2', 'B2')
    for mname in ('exists', 'download', 'download_stream', 'upload', 'upload_stream', 'delete'):
        f = b2.methods.get(mname)
        if f is None:
            raise AnalysisError(f'C13.R5: B2.{mname} missing')
        ctx.analysed(f)
        ev = Evaluator(corpus, depth=2)
        ev.run(f)
        for e in ev.events:
            c = e.callee
            d = e.callee[1] if e.callee[0] == 'name' else ''
            if not (e.method in ('get', 'post', 'head', 'stream', 'put', 'delete', 'request') and e.receiver is not None and contains(e.receiver, lambda y: y[0] == 'attr' and y[2] == '_client')):
                continue
            args = list(e.args)
            url = args[1] if e.method in ('stream', 'request') and len(args) > 1 else (args[0] if args else None)
            kws = dict(e.kwargs)
            if url is not None and contains(url, lambda y: y == ('param', 'name')):
                n += 1
                q, raw = _quoted(url, 'name')
                ctx.check(q and not raw, 'C13.R5', f'{func_label(f)}|url-name-quoted', e.loc, f'B2.{mname}: the object name enters the URL only through quote()', f'B2.{mname}: the object name is interpolated into the URL unquoted: a name containing "#", "?", "%" or a space addresses a different object')
            hd = kws.get('headers')
            if hd is not None and contains(hd, lambda y: y == ('param', 'name')):
                n += 1
                q, raw = _quoted(hd, 'name')
                ctx.check(q and not raw, 'C13.R5', f'{func_label(f)}|header-name-quoted', e.loc, f'B2.{mname}: x-bz-file-name carries quote(name)', f'B2.{mname}: the file-name header carries the raw name (B2 requires percent-encoding)')
            js = kws.get('json')
            if js is not None and contains(js, lambda y: y == ('param', 'name')):
                n += 1
                q, raw = _quoted(js, 'name')
                ctx.check(raw and not q, 'C13.R5', f'{func_label(f)}|json-name-raw', e.loc, f'B2.{mname}: the JSON body carries the object name unchanged', f'B2.{mname}: the JSON body carries a percent-encoded name: B2 looks up a different file name (delete/hide silently does nothing for names with special characters)')
    ctx.floor('C13.R5', 'B2 request sites carrying the object name', n, 5)
    # S3: the canonical URI is quoted once in _prepare_request and that value is the URL path (details in C16.R1)
    s3 = corpus.cls('s3c', 'S3Compatible')
    pr = s3.methods.get('_prepare_request')
    ctx.analysed(pr)
    ev = Evaluator(corpus, depth=2)
    ev.run(pr)
    br = [e for e in ev.events if e.method == 'build_request']
    ctx.floor('C13.R5', 'S3 build_request', len(br))
    for e in br:
        url = e.args[1] if len(e.args) > 1 else None
        pparams = [a.arg for a in pr.node.args.posonlyargs + pr.node.args.args]
        path_param = pparams[2] if len(pparams) > 2 else 'canonical_uri'  # (self, method, <path>, ...)
        q, raw = _quoted(url, path_param) if url is not None else (False, True)
        ctx.check(q and not raw, 'C13.R5', f'{func_label(pr)}|s3-url-path-quoted', e.loc, 'S3: the request URL path is quote(canonical_uri)', 'S3: the object path enters the URL unquoted')
    for mname in ('exists', 'upload', 'download', 'download_stream', 'delete', '_put_object', '_put_object_stream'):
        f = s3.methods.get(mname)
        if f is None:
            continue
        for c in calls_in(f.node):
            if (dotted(c.func) or '') in ('self._make_request', 'self._make_streaming_request') and len(c.args) >= 2:
                u = c.args[1]
                ok = isinstance(u, ast.JoinedStr) and all((isinstance(v, ast.Constant)) or (isinstance(v, ast.FormattedValue) and (dotted(v.value) in ('self.bucket_name', 'name'))) for v in u.values)
                ctx.check(ok, 'C13.R5', f'{func_label(f)}|s3-canonical-uri-shape', loc(f, c), f'S3.{mname}: canonical URI is /<bucket>/<name> (quoting happens once, in _prepare_request)', f'S3.{mname}: canonical URI `{src(u, 60)}` is pre-processed (double or missing quoting)')


def _not_found_edges(cfg, handler):
    """CFG edge nodes inside `handler` on which the caught status is / is not NOT_FOUND"""
    nf, other = [], []
    for i in ast.walk(handler):
        if isinstance(i, ast.If) and isinstance(i.test, ast.Compare) and len(i.test.ops) == 1:
            sides = [i.test.left, i.test.comparators[0]]
            if any(isinstance(x, ast.Attribute) and x.attr == 'NOT_FOUND' for x in sides) or any(isinstance(x, ast.Constant) and x.value == 404 for x in sides):
                if isinstance(i.test.ops[0], (ast.Eq, ast.Is)):
                    nf += cfg.nodes_of(i, 'true')
                    other += cfg.nodes_of(i, 'false')
                elif isinstance(i.test.ops[0], (ast.NotEq, ast.IsNot)):
                    nf += cfg.nodes_of(i, 'false')
                    other += cfg.nodes_of(i, 'true')
    return nf, other


def r7_exists_answer(ctx, rule='C13.R7'):
    """exists(): True only after a successful request made in this call, False only
    for the service's 'not found' answer, everything else propagates; no memo."""
    corpus = ctx.corpus
    from ..cfg import cfg_of

    for ci in backend_classes(corpus):
        if ci.name == 'S3':
            continue
        f = own_methods(corpus, ci).get('exists')
        if f is None:
            raise AnalysisError(f'{rule}: {ci.name}.exists missing')
        ctx.analysed(f)
        cfg = cfg_of(f.node)
        local_fs = ci.module.rel.endswith('local.py')
        if local_fs:
            rets = [r for r in walk_local(f.node) if isinstance(r, ast.Return)]
            ok = len(rets) == 1 and isinstance(rets[0].value, ast.Call) and dotted(rets[0].value.func) in ('os.path.exists', 'os.path.isfile') and 'self.path / name' in src(rets[0].value)
            ctx.check(ok, rule, f'{func_label(f)}|exists-asks-the-store', loc(f, f.node), f'{ci.name}.exists answers from the file system for exactly self.path / name', f'{ci.name}.exists no longer answers os.path.exists(self.path / name)')
            continue
        reqs = [enclosing_stmt(c) for c in calls_in(f.node) if (dotted(c.func) or '').startswith(('self._client.', 'self._make_request'))]
        req_ok = [x for st in reqs for x in cfg.nodes_of(st, 'ok')]
        for r in walk_local(f.node):
            if not isinstance(r, ast.Return):
                continue
            v = r.value
            site = loc(f, r)
            if isinstance(v, ast.Constant) and v.value is True:
                good = bool(req_ok) and all(cfg.set_dominates(req_ok, x) for x in cfg.nodes_of(r, 'stmt'))
                ctx.check(good, rule, f'{func_label(f)}|true-only-after-successful-request', site, f'{ci.name}.exists returns True only after a request of this call succeeded', f'{ci.name}.exists can return True without a successful request in this call (e.g. from a remembered answer or for an error status): a missing object is reported as present and its upload is skipped')
            elif isinstance(v, ast.Constant) and v.value is False:
                h = [a for a in ancestors(r) if isinstance(a, ast.ExceptHandler)]
                nf, _other = _not_found_edges(cfg, h[0]) if h else ([], [])
                good = bool(nf) and bool(h) and any(x.endswith('HTTPStatusError') for x in handler_catches(h[0])) and all(cfg.set_dominates(nf, x) for x in cfg.nodes_of(r, 'stmt'))
                ctx.check(good, rule, f'{func_label(f)}|false-only-for-not-found', site, f'{ci.name}.exists returns False only for the NOT_FOUND status', f'{ci.name}.exists returns False for something else than the NOT_FOUND answer')
            else:
                ctx.fail(rule, f'{func_label(f)}|exists-returns-computed-value', site, f'{ci.name}.exists returns `{src(v, 60) if v is not None else None}`: the answer is not (True after success | False for NOT_FOUND); statuses such as 403/5xx would be turned into an answer instead of an error')
        # the status handler re-raises everything else
        for t in walk_local(f.node):
            if isinstance(t, ast.Try):
                for hd in t.handlers:
                    if any(x.endswith('HTTPStatusError') for x in handler_catches(hd)):
                        nf, other = _not_found_edges(cfg, hd)
                        # every path that is not the NOT_FOUND answer leaves the handler by raising
                        propagates = bool(nf) and bool(other) and all(cfg.path(o, [cfg.exit]) is None for o in other) and all(cfg.path(hn, [cfg.exit], avoid=nf) is None for hn in cfg.nodes_of(hd, 'handler'))
                        ctx.check(propagates, rule, f'{func_label(f)}|other-statuses-propagate', loc(f, hd), f'{ci.name}.exists re-raises every status error other than NOT_FOUND', f'{ci.name}.exists does not re-raise other status errors: 403 / 5xx answers are turned into an existence answer')
        # no instance memo consulted
        reads = {a.attr for a in ast.walk(f.node) if isinstance(a, ast.Attribute) and isinstance(a.value, ast.Name) and a.value.id == 'self' and isinstance(a.ctx, ast.Load)}
        extra = reads - {'_auth', '_client', '_get_bucket', '_make_request', 'bucket_name', '_bucket', 'path'}
        ctx.check(not extra, rule, f'{func_label(f)}|no-remembered-answers', loc(f, f.node), f'{ci.name}.exists consults only the service', f'{ci.name}.exists consults instance state {sorted(extra)}: a remembered answer can be stale (object deleted meanwhile / by another client)')


def r6_temp_invisible(ctx):
    from .c03 import r5_temp_invisible

    class _P:
        def __init__(self, c):
            self._c = c

        def __getattr__(self, n):
            return getattr(self._c, n)

        def ok(self, rule, *a):
            return self._c.ok('C13.R6', *a)

        def fail(self, rule, *a, **k):
            return self._c.fail('C13.R6', *a, **k)

        def check(self, cond, rule, *a, **k):
            return self._c.check(cond, 'C13.R6', *a, **k)

        def floor(self, rule, *a):
            return self._c.floor('C13.R6', *a)

    r5_temp_invisible(_P(ctx))


def r8_no_shared_mutable_state(ctx, rule='C13.R8'):
    """adapters keep no state between calls in module-level containers: a dict / list / set literal bound at module level
    of a backend module is never modified by a function (request parameters would leak from one call into the next,
    and between client objects of one process)"""
    corpus = ctx.corpus
    MUT = {'update', 'append', 'add', 'setdefault', 'pop', 'popitem', 'clear', 'extend', 'insert', 'remove', 'discard'}
    n = 0
    for short in ('local', 's3c', 's3', 'b2', 'base'):
        m = corpus.module(short)
        consts = {}
        for st in m.tree.body:
            if isinstance(st, ast.Assign) and len(st.targets) == 1 and isinstance(st.targets[0], ast.Name) and isinstance(st.value, (ast.Dict, ast.List, ast.Set)):
                consts[st.targets[0].id] = st
        for name, st in consts.items():
            n += 1
            aliases = {name}
            bad = None
            for f in m.all_functions:
                local_alias = set()
                for x in walk_local(f.node):
                    # q = CONST  (an alias, not a copy)
                    if isinstance(x, ast.Assign) and isinstance(x.value, ast.Name) and x.value.id in aliases:
                        local_alias |= {t.id for t in x.targets if isinstance(t, ast.Name)}
                names = aliases | local_alias
                for x in walk_local(f.node):
                    if isinstance(x, ast.Subscript) and isinstance(x.ctx, (ast.Store, ast.Del)) and isinstance(x.value, ast.Name) and x.value.id in names:
                        bad = bad or (f, x)
                    if isinstance(x, ast.Call) and isinstance(x.func, ast.Attribute) and x.func.attr in MUT and isinstance(x.func.value, ast.Name) and x.func.value.id in names:
                        bad = bad or (f, x)
                    if isinstance(x, ast.AugAssign) and isinstance(x.target, ast.Name) and x.target.id in names:
                        bad = bad or (f, x)
            ctx.check(
                bad is None,
                rule,
                f'{m.rel}|module-constant-not-mutated:{name}',
                f'{m.rel}:{st.lineno}' if bad is None else loc(bad[0], bad[1]),
                f'{m.rel}: module-level container `{name}` is only read',
                f'{m.rel}: `{name}` is a module-level container that `{bad[0].qual if bad else ""}` modifies in place (`{src(enclosing_stmt(bad[1]), 50) if bad else ""}`): values of one call (prefix, continuation token, headers ...) leak into later calls and into other client objects',
            )
    ctx.count('module_level_containers_in_backends', n)


def r3b_local_prefix_scan(ctx):
    """Local.list_files(prefix) is a plain string-prefix filter over the names below the prefix's directory, like the
    object stores': every listing scans that directory and filters its entries by `startswith`.  A path that finishes the
    listing without the scan (a shortcut for "the prefix names a directory") drops the siblings that merely start with
    the same characters (data/ab -> data/abc, data/abd)."""
    corpus = ctx.corpus
    local = corpus.cls('local', 'Local')
    lf = local.methods.get('list_files')
    if lf is None:
        raise AnalysisError('C13.R3: Local.list_files missing')
    cands = [lf] + list(lf.all_nested()) + [m for m in local.methods.values() if m is not lf and any(isinstance(a, ast.Attribute) and a.attr == m.name for a in ast.walk(lf.node))]
    scanners = [f for f in cands if any((dotted(c.func) or '') == 'os.scandir' for c in calls_in(f.node))]
    call_of = {}
    if not scanners:
        # the scan was delegated to a module-level helper (utils.fs): judge the helper under the arguments of the call
        for c in calls_in(lf.node):
            nm = (dotted(c.func) or '').rsplit('.', 1)[-1]
            for m in corpus.modules.values():
                h = m.functions.get(nm)
                if h is not None and any((dotted(x.func) or '') == 'os.scandir' for x in calls_in(h.node)):
                    scanners.append(h)
                    call_of[h.key] = c
    ctx.floor('C13.R3', 'function of Local that opens the listing directory', len(scanners))
    for f in scanners:
        ctx.analysed(f)
        cfg = cfg_of(f.node)
        scans = [x for c in calls_in(f.node) if (dotted(c.func) or '') == 'os.scandir' for x in cfg.nodes_of(enclosing_stmt(c), ('stmt', 'with_enter'))]
        bypass = cfg.path(cfg.entry, [cfg.exit], avoid=scans, kinds=('normal',))
        ctx.check(
            bypass is None or f.key in call_of,
            'C13.R3',
            f'{func_label(f)}|every-listing-scans-the-prefix-directory',
            loc(f, f.node),
            f'{f.qual}: every listing opens the directory of the prefix and filters its entries (no path to the end of the listing avoids the scan)',
            f'{f.qual}: the listing can finish without scanning the directory of the prefix (path {" -> ".join(f"{n.kind}@{n.lineno}" for n in (bypass or []) if n.lineno)[:160]}): entries whose names merely start with the prefix are not reported - '
            'the adapter answers differently from S3 / B2 for the same store contents',
        )
        # the entries directly under the prefix directory are classified the way exists / download / upload reach them:
        # through symbolic links (a shard directory moved to another disk and linked back is still part of the store)
        kinds = [c for c in calls_in(f.node) if isinstance(c.func, ast.Attribute) and c.func.attr in ('is_dir', 'is_file')]
        def _fs_value(c):
            v = kwarg(c, 'follow_symlinks')
            if isinstance(v, ast.Name) and f.key in call_of:
                passed = kwarg(call_of[f.key], v.id)
                if passed is not None:
                    return passed
                a_ = f.node.args
                for p_, d_ in list(zip(a_.kwonlyargs, a_.kw_defaults)) + list(zip(a_.args[len(a_.args) - len(a_.defaults):], a_.defaults)):
                    if p_.arg == v.id and d_ is not None:
                        return d_
            return v

        nofollow = [c for c in kinds if isinstance(_fs_value(c), ast.Constant) and _fs_value(c).value is False]
        ctx.check(
            not nofollow,
            'C13.R3',
            f'{func_label(f)}|top-level-entries-follow-links',
            loc(f, nofollow[0]) if nofollow else loc(f, f.node),
            f'{f.qual}: entries under the prefix directory are classified with symbolic links followed, like exists() / download()',
            f'{f.qual}: `{src(nofollow[0], 50) if nofollow else ""}` does not follow symbolic links: a linked directory / object that exists() and download() reach is missing from the listing '
            '(snapshots under it vanish from the listings, restore picks an older version, clean removes their chunks)',
        )
        filt = [c for c in calls_in(f.node) if isinstance(c.func, ast.Attribute) and c.func.attr == 'startswith']
        ctx.check(bool(filt), 'C13.R3', f'{func_label(f)}|entries-filtered-by-startswith', loc(f, f.node), f'{f.qual}: entries are filtered with startswith(<basename of the prefix>)', f'{f.qual}: no startswith filter on the scanned entries')


def r10_download_stream_discipline(ctx):
    """download_stream leaves exactly the object's bytes in the destination: the stream is cut to the announced length
    (or emptied when none is announced) on EVERY path before the first byte is written, and the local adapter takes
    that length from the descriptor it then copies from - not from a second look at the path, which may by then
    name a replaced object."""
    corpus = ctx.corpus
    n = 0
    for ci in backend_classes(corpus):
        f = own_methods(corpus, ci).get('download_stream')
        if f is None or f.cls is not ci and ci.name == 'S3':
            continue
        prm = [a.arg for a in f.node.args.posonlyargs + f.node.args.args]
        if len(prm) < 3:
            continue
        sp = prm[2]
        ctx.analysed(f)
        cfg = cfg_of(f.node)
        truncs = [c for c in calls_in(f.node) if isinstance(c.func, ast.Attribute) and c.func.attr == 'truncate' and isinstance(c.func.value, ast.Name) and c.func.value.id == sp]
        writes = [c for c in calls_in(f.node) if (isinstance(c.func, ast.Attribute) and c.func.attr == 'write' and isinstance(c.func.value, ast.Name) and c.func.value.id == sp) or ((dotted(c.func) or '').endswith('copyfileobj') and len(c.args) >= 2 and isinstance(c.args[1], ast.Name) and c.args[1].id == sp)]
        if not writes:
            continue
        n += 1
        tn = [x for c in truncs for x in (cfg.nodes_of(enclosing_stmt(c), 'ok') or cfg.nodes_of(enclosing_stmt(c), 'stmt'))]
        ok = bool(tn) and all(cfg.set_dominates(tn, x) for c in writes for x in cfg.nodes_of(enclosing_stmt(c), ('stmt', 'loop')))
        ctx.check(
            ok,
            'C13.R6',
            f'{func_label(f)}|destination-cut-before-first-write',
            loc(f, writes[0]),
            f'{ci.name}.download_stream: `{sp}.truncate(..)` runs on every path before the first byte is written',
            f'{ci.name}.download_stream: bytes can be written without `{sp}.truncate(..)` having run on that path (e.g. only when a length is announced): what an earlier attempt / an earlier use left in '
            'the destination survives behind a shorter object - a version the object never had',
        )
        if ci.module.rel.endswith('local.py'):
            for c in truncs:
                arg = c.args[0] if c.args else None
                d = deref_at(f.node, arg) if isinstance(arg, ast.Name) else arg
                from_fd = isinstance(d, ast.Attribute) and d.attr == 'st_size' and isinstance(d.value, ast.Call) and (dotted(d.value.func) or '') == 'os.fstat'
                ctx.check(
                    from_fd,
                    'C13.R6',
                    f'{func_label(f)}|length-of-the-open-descriptor',
                    loc(f, c),
                    f'{ci.name}.download_stream: the length is os.fstat(<open file>).st_size - the size of the very object that is copied',
                    f'{ci.name}.download_stream: the length `{src(arg, 40) if arg is not None else ""}` is not taken from the open descriptor (os.fstat(file.fileno())): an upload that replaces the object between the size '
                    'lookup and the open makes the download deliver the new bytes padded / cut to the old length',
                )
    ctx.floor('C13.R6', 'download_stream implementations writing into the destination', n, 2)


def r11_wrappers_forward_arguments(ctx, rule='C13.R1'):
    """A decorator wrapper `def wrapper(self, *a, **ka)` around a backend method hands the method - and itself, when it
    retries - the arguments it was called with: every call of the wrapped function / of the wrapper carries both *a and
    **ka.  Dropping one re-issues e.g. a page request without its continuation and prefix."""
    corpus = ctx.corpus
    n = 0
    for mname in ('utils', 'b2', 's3c', 'local', 'base'):
        for f in corpus.module(mname).all_functions:
            a = f.node.args
            if a.vararg is None or a.kwarg is None or f.parent is None:
                continue
            outer = f.parent
            wrapped = {x.arg for x in outer.node.args.posonlyargs + outer.node.args.args}
            targets = wrapped | {f.name}
            for c in calls_in(f.node):
                if isinstance(c.func, ast.Name) and c.func.id in targets:
                    n += 1
                    has_va = any(isinstance(x, ast.Starred) and isinstance(x.value, ast.Name) and x.value.id == a.vararg.arg for x in c.args)
                    has_kw = any(k.arg is None and isinstance(k.value, ast.Name) and k.value.id == a.kwarg.arg for k in c.keywords)
                    ctx.check(
                        has_va and has_kw,
                        rule,
                        f'{func_label(f)}|wrapper-forwards-all-arguments',
                        loc(f, c),
                        f'{outer.name}.{f.name}: `{src(c, 50)}` forwards *{a.vararg.arg} and **{a.kwarg.arg}',
                        f'{outer.name}.{f.name}: `{src(c, 50)}` does not forward {"*" + a.vararg.arg if not has_va else "**" + a.kwarg.arg}: the (re)issued call runs with other arguments than the caller gave - '
                        'e.g. a listing page requested again after re-authentication without its start marker and prefix (names outside the prefix, duplicates)',
                    )
    ctx.floor(rule, 'forwarding calls in decorator wrappers', n, 2)


def r12_small_invariants(ctx):
    """Three single-expression invariants of the adapters' plumbing that the interface rules above rest on:
    (a) the error hooks read the response body before the error travels on (delete's idempotence tests parse it; over a
        streaming transport an unread body raises ResponseNotRead instead);
    (b) the package's chunk iterator ends on an EMPTY read only - a short read is not the end of a stream;
    (c) Local.list_files translates the platform separator (os.sep) and nothing else in the names it reports."""
    corpus = ctx.corpus
    # (a)
    n = 0
    for short in ('b2', 's3c'):
        m = corpus.module(short)
        for f in m.all_functions:
            for h in [h for t in walk_local(f.node) if isinstance(t, ast.Try) for h in t.handlers]:
                reads = [c for st in h.body for c in ast.walk(st) if isinstance(c, ast.Call) and isinstance(c.func, ast.Attribute) and c.func.attr in ('aread', 'read') and isinstance(c.func.value, ast.Attribute) and c.func.value.attr == 'response']
                if not reads:
                    continue
                n += 1
                ctx.analysed(f)
                cfg = cfg_of(f.node)
                rnodes = [x for c in reads for x in cfg.nodes_of(enclosing_stmt(c), ('stmt', 'ok'))]
                entry = cfg.nodes_of(h, 'handler')
                skip = None
                for e in entry:
                    skip = skip or cfg.path(e, [cfg.raise_exit, cfg.exit], avoid=rnodes)
                ctx.check(
                    skip is None,
                    'C13.R4',
                    f'{func_label(f)}|error-body-read-before-the-error-travels-on',
                    loc(f, reads[0]),
                    f'{short}.{f.name}: the body of an error response is read on every path before the error is raised on',
                    f'{short}.{f.name}: the error can leave the hook without the response body having been read (e.g. only when debug logging is on): code that inspects the error body later '
                    '(delete tolerating "already hidden" / "no such file") fails with ResponseNotRead on a streaming transport - deleting twice is no longer a no-op',
                )
    ctx.floor('C13.R4', 'error hooks reading the response body', n)
    # (b)
    ic = corpus.module('utils').functions.get('iter_chunks')
    if ic is None:
        raise AnalysisError('C13.R6: utils.iter_chunks missing')
    ctx.analysed(ic)
    good = any(isinstance(r, ast.Return) and isinstance(r.value, ast.Call) and dotted(r.value.func) == 'iter' and len(r.value.args) == 2 and isinstance(r.value.args[1], ast.Constant) and r.value.args[1].value == b'' for r in walk_local(ic.node))
    if not good:
        exits = [x for x in walk_local(ic.node) if isinstance(x, (ast.Break, ast.Return))]
        loops = [l for l in walk_local(ic.node) if isinstance(l, (ast.While, ast.For))]
        def _empty_read_test(t):
            while isinstance(t, ast.UnaryOp) and isinstance(t.op, ast.Not):
                t = t.operand
            return isinstance(t, ast.Name) or (isinstance(t, ast.Compare) and len(t.ops) == 1 and isinstance(t.comparators[0], ast.Constant) and t.comparators[0].value in (b'', 0) and isinstance(t.ops[0], (ast.Eq, ast.NotEq)) and not any(isinstance(x, ast.Call) and dotted(x.func) == 'len' and False for x in ast.walk(t)))
        good = bool(loops) and all(isinstance(getattr(x, '_parent', None), ast.If) and _empty_read_test(x._parent.test) for x in exits) and not any(isinstance(c, ast.Compare) and any(isinstance(y, ast.Call) and dotted(y.func) == 'len' for y in ast.walk(c)) and any(isinstance(o, (ast.Lt, ast.LtE, ast.Gt, ast.GtE)) for o in c.ops) for c in ast.walk(ic.node))
    ctx.check(
        good,
        'C13.R6',
        f'{func_label(ic)}|chunk-iterator-ends-on-empty-read-only',
        loc(ic, ic.node),
        'utils.iter_chunks yields until read() returns an empty result',
        'utils.iter_chunks can stop on something else than an empty read (e.g. a read shorter than chunk_size): streams that deliver short reads before their end (pipes, sockets, rate-limited or wrapped files) are uploaded truncated by the adapters that stream through it',
    )
    # (c)
    lf = corpus.cls('local', 'Local').methods.get('list_files')
    if lf is not None:
        reps = [c for f in [lf] + list(lf.all_nested()) for c in calls_in(f.node) if isinstance(c.func, ast.Attribute) and c.func.attr == 'replace' and len(c.args) == 2 and isinstance(c.args[1], ast.Constant) and c.args[1].value == '/']
        for c in reps:
            ok = dotted(c.args[0]) == 'os.sep' or (isinstance(c.args[0], ast.Constant) and c.args[0].value == '/')
            ctx.check(
                ok,
                'C13.R3',
                f'{func_label(lf)}|only-the-platform-separator-is-translated',
                loc(lf, c),
                'Local.list_files: names are reported with os.sep translated to "/" and nothing else changed',
                f'Local.list_files: `{src(c, 50)}` rewrites characters that are part of object names on this platform: the listing reports names that do not exist and omits the ones that do',
            )


def r9_b2_bucket_record(ctx):
    """B2 addresses objects by bucket *name* in download URLs and by bucket *id* in the JSON API.  The cached bucket
    record must therefore carry the API's own bucketId / bucketName - never the connection-string identifier, which
    may be either of the two."""
    corpus = ctx.corpus
    b2 = corpus.cls('b2', 'B2')
    n = 0
    for m in list(b2.methods.values()) + list(b2.module.functions.values()):
        for a in walk_local(m.node):
            # the record: a call with id= / name= keywords, assigned to self._bucket or built by a helper of the module
            if isinstance(a, ast.Assign) and any(isinstance(t, ast.Attribute) and t.attr == '_bucket' and isinstance(t.value, ast.Name) and t.value.id == 'self' for t in a.targets):
                v = a.value
            elif isinstance(a, ast.Return) and m.cls is None:
                v = a.value
            else:
                continue
            if isinstance(v, ast.Name):
                cands = [x.value for x in walk_local(m.node) if isinstance(x, ast.Assign) and any(isinstance(t, ast.Name) and t.id == v.id for t in x.targets) and isinstance(x.value, ast.Call) and {k.arg for k in x.value.keywords} >= {'id', 'name'}]
                v = cands[0] if len(cands) == 1 else v
            if not (isinstance(v, ast.Call) and {k.arg for k in v.keywords} >= {'id', 'name'}):
                continue
            n += 1
            ctx.analysed(m)

            def field(e, key):
                d = deref_at(m.node, e) if isinstance(e, ast.Name) else e
                return isinstance(d, ast.Subscript) and isinstance(d.slice, ast.Constant) and d.slice.value == key

            kid, knm = kwarg(v, 'id'), kwarg(v, 'name')
            ctx.check(
                field(kid, 'bucketId') and field(knm, 'bucketName'),
                'C13.R9',
                f'{func_label(m)}|bucket-record-from-api-fields',
                loc(m, a),
                f"B2.{m.name}: the cached bucket record is (id=<..>['bucketId'], name=<..>['bucketName']) as reported by the service",
                f"B2.{m.name}: the cached bucket record is built from `id={src(kid, 40)}`, `name={src(knm, 40)}` - not the service's bucketId / bucketName: when the repository is addressed by bucket id, "
                'download URLs (/file/<name>/..) point to a non-existing bucket: exists() says False for live objects and downloads fail, while uploads and listings (by id) work',
            )
    ctx.floor('C13.R9', 'B2 bucket record constructions', n, 2)


def run(ctx):
    from ..report import Relabel
    from .c03 import r4_local_atomic
    from .c12 import r2_rewind

    # "an upload stores exactly the bytes given": the publish discipline of the file backend and the rewind-before-retry rule
    r4_local_atomic(Relabel(ctx, 'C13.R6'))
    r2_rewind(Relabel(ctx, 'C13.R6'), rule='C13.R6')
    r8_no_shared_mutable_state(ctx)
    r9_b2_bucket_record(ctx)
    r12_small_invariants(ctx)
    from .shared import adapter_delete_discipline

    adapter_delete_discipline(ctx, 'C13.R4')
    r10_download_stream_discipline(ctx)
    r11_wrappers_forward_arguments(ctx)
    r7_exists_answer(ctx)
    r6_temp_invisible(ctx)
    r1_conformance(ctx)
    r2_pagination(ctx)
    from .shared import local_listing_errors_propagate

    local_listing_errors_propagate(ctx, 'C13.R2')
    r3_prefix(ctx)
    r3b_local_prefix_scan(ctx)
    r4_idempotent_delete(ctx)
    r5_quoting(ctx)
