"""C15 - Restore and the listings select exactly what the filters and timestamps say.

Decides: one name function shared by listings, filter and delete; newest-first
sort on the stored timestamp + first-wins guard; same regex method at all filter
sites and transparent combination of user regexes; refusal dominates the first
deletion; listed quantities are read from the listed record (incl. time-unit
handling of legacy metadata).  Not decided: which version wins for concrete
histories; that lexicographic order of the time string is chronological."""
from __future__ import annotations

import ast

from ..astutil import ancestors, deref, body_always_raises, calls_in, dotted, enclosing_stmt, is_within, kwarg, src, walk_local
from ..cfg import cfg_of, deref_at
from ..loader import AnalysisError
from ..terms import Evaluator, alts, contains, find, show, strip_sites, walk
from .common import func_label, loc, repo_cls, self_calls
from .gcroles import DeleteRoles

EXPLANATION = (
    'Same-origin comparison (provenance terms) of the snapshot name used by the two listings, the snapshot filter and delete; shape of the three sort keys '
    '(the stored utc_timestamp, descending) and dominance of the "path already planned" test over plan creation in restore; table of regex application sites '
    '(one compile helper, .search everywhere, None means no filter) and transparency of the CLI regex combiner; dominance of the refusal / confirmation over every '
    'deletion in delete_snapshots; provenance of every listed quantity (sizes from range differences, counts from len, times with the ns / legacy-seconds units). '
    'Rules C15.R1-R5.'
    ' Added with the seeded-defect rounds: leftovers of a finished loop, one row per record, no late-binding closures over loop variables, table placeholder for None only, local listing follows links.'
    ' Round 6: unit / divisor pairing of bytes_to_human (if-chain, unit loop unrolled over its constant, table form), every loaded snapshot gets a row, complete pagination.'
)
NOT_DECIDED = 'which version is restored for concrete timestamp histories (runtime values); chronological meaning of the stored time string'
TRUSTED = ['re.search semantics', 'list.sort is stable and honours reverse=True', 'CPython ast']
ASSUMPTIONS = ['snapshot timestamps are distinct (property text)']


def _name_shape(t, path_term):
    """t == <path>.rpartition('-')[2] ?"""
    return t == ('sub', ('call', ('attr', path_term, 'rpartition'), (('const', '-'),), (), None), ('const', 2)) or strip_sites(t) == (
        'sub',
        ('call', ('attr', path_term, 'rpartition'), (('const', '-'),), ()),
        ('const', 2),
    )


def r1_one_name(ctx):
    corpus = ctx.corpus
    cls = repo_cls(corpus)
    from .common import listing_getter_roles

    for nm, param in (('_format_snapshot_name', listing_getter_roles(corpus, 'list_snapshots').get('path', 'path')), ('_format_file_snapshot_name', listing_getter_roles(corpus, 'list_files').get('path', 'snapshot_path'))):
        f = corpus.method(cls, nm)
        if f is None:
            raise AnalysisError(f'C15.R1: {nm} missing')
        ctx.analysed(f)
        ev = Evaluator(corpus, depth=4)
        r = ev.run(f)
        ok = _name_shape(r, ('param', param))
        ctx.check(
            ok,
            'C15.R1',
            f'{func_label(f)}|printed-name-is-parsed-name',
            loc(f, f.node),
            f'{nm} prints exactly parse_snapshot_location(path).name',
            f'{nm} prints {show(r, limit=120)} - not the name that delete and the snapshot filter accept',
        )
    # the name column is passed through str/ljust only (layout), checked in list_snapshots
    for cmd in ('list_snapshots', 'list_files'):
        f = corpus.func('repository', f'Repository.{cmd}')
        ctx.analysed(f)
        # the cell variable: the local assigned from the getter call
        cell = None
        for n in walk_local(f.node):
            if isinstance(n, ast.Assign) and isinstance(n.value, ast.Call) and isinstance(n.value.func, ast.Name) and isinstance(n.targets[0], ast.Name) and any(k.arg in ('path', 'snapshot_path', 'data', 'file_data') for k in n.value.keywords):
                cell = n.targets[0].id
        bad = []
        for n in walk_local(f.node):
            if isinstance(n, ast.Assign) and any(isinstance(t, ast.Name) and t.id == cell for t in n.targets):
                v = n.value
                if isinstance(v, ast.Call) and dotted(v.func) == 'str':
                    continue
                if isinstance(v, ast.Call) and isinstance(v.func, ast.Name) and any(k.arg in ('path', 'snapshot_path') for k in v.keywords):
                    continue
                # the placeholder for a missing value: assigned only where the cell is None
                if isinstance(v, (ast.Attribute, ast.Constant)) and any(isinstance(i, ast.If) and isinstance(i.test, ast.Compare) and len(i.test.ops) == 1 and isinstance(i.test.left, ast.Name) and i.test.left.id == cell and isinstance(i.test.comparators[0], ast.Constant) and i.test.comparators[0].value is None and ((isinstance(i.test.ops[0], ast.Is) and any(x is n for b_ in i.body for x in ast.walk(b_))) or (isinstance(i.test.ops[0], ast.IsNot) and any(x is n for b_ in i.orelse for x in ast.walk(b_)))) for i in _anc(n)):
                    continue
                bad.append(n)
        slices = [n for n in walk_local(f.node) if isinstance(n, ast.Subscript) and isinstance(n.slice, ast.Slice) and isinstance(n.value, ast.Name) and n.value.id == cell]
        ctx.check(
            not bad and not slices,
            'C15.R1',
            f'{func_label(f)}|cell-layout-only',
            loc(f, f.node),
            f'{cmd}: a cell value is the getter result passed through str() and padding only',
            f'{cmd}: cell values are transformed ({src(bad[0]) if bad else "slice"}) between getter and print',
        )
    # filter in the loader and name in delete use the same parse
    ls = corpus.func('repository', 'Repository._load_snapshots')
    ok = False
    for f in ls.all_nested():
        for c in calls_in(f.node):
            if isinstance(c.func, ast.Attribute) and c.func.attr == 'search' and c.args:
                arg = c.args[0]
                # (a) `name, tag = self.parse_snapshot_location(path)` ; search(name)
                if isinstance(arg, ast.Name):
                    for a in walk_local(f.node):
                        if isinstance(a, ast.Assign) and isinstance(a.value, ast.Call) and (dotted(a.value.func) or '') == 'self.parse_snapshot_location':
                            t = a.targets[0]
                            if isinstance(t, ast.Tuple) and t.elts and isinstance(t.elts[0], ast.Name) and t.elts[0].id == arg.id:
                                ok = True
                # (b) search(self.parse_snapshot_location(path).name), possibly through locals
                av = deref(f.node, arg)
                if isinstance(av, ast.Attribute) and av.attr == 'name':
                    base = deref(f.node, av.value)
                    if isinstance(base, ast.Call) and (dotted(base.func) or '') == 'self.parse_snapshot_location':
                        ok = True
                if isinstance(av, ast.Subscript) and isinstance(av.slice, ast.Constant) and av.slice.value == 0:
                    base = deref(f.node, av.value)
                    if isinstance(base, ast.Call) and (dotted(base.func) or '') == 'self.parse_snapshot_location':
                        ok = True
    ctx.check(ok, 'C15.R1', f'{func_label(ls)}|filter-on-parsed-name', loc(ls, ls.node), 'the snapshot filter is applied to parse_snapshot_location(path).name', 'the snapshot filter is not applied to the parsed snapshot name')
    roles = DeleteRoles(corpus)
    fn = roles.fn
    okd = False
    for a in walk_local(roles.loop):
        if isinstance(a, ast.Assign) and isinstance(a.value, ast.Attribute) and a.value.attr == 'name' and isinstance(a.value.value, ast.Call) and dotted(a.value.value.func) == 'self.parse_snapshot_location':
            arg = a.value.value.args[0] if a.value.value.args else None
            if isinstance(arg, ast.Name) and arg.id == roles.path_var:
                tgt = a.targets[0].id if isinstance(a.targets[0], ast.Name) else None
                # used in the membership test
                for n in walk_local(roles.loop):
                    if isinstance(n, ast.Compare) and isinstance(n.left, ast.Name) and n.left.id == tgt and isinstance(n.ops[0], (ast.In, ast.NotIn)):
                        okd = True
    ctx.check(okd, 'C15.R1', f'{func_label(fn)}|delete-matches-parsed-name', loc(fn, roles.loop), 'delete matches requested names against parse_snapshot_location(path).name of each listed snapshot', 'delete no longer matches requested names against the parsed snapshot name')


def _ts_key_ok(key, allow_or_empty=False):
    """lambda x: x['data']['utc_timestamp'] (or x[0] for pre-extracted tuples)."""
    if not isinstance(key, ast.Lambda):
        return False, 'sort key is not a lambda'
    b = key.body
    if allow_or_empty and isinstance(b, ast.BoolOp) and isinstance(b.op, ast.Or) and len(b.values) == 2 and isinstance(b.values[1], ast.Constant) and b.values[1].value == '':
        b = b.values[0]
    if isinstance(b, ast.Call) and (dotted(b.func) or '').endswith(('fromisoformat', '_extract_snapshot_utc_timestamp')) and len(b.args) == 1:
        b = b.args[0]
    chain = []
    cur = b
    while isinstance(cur, ast.Subscript) and isinstance(cur.slice, ast.Constant):
        chain.append(cur.slice.value)
        cur = cur.value
    chain.reverse()
    if isinstance(cur, ast.Name) and chain in (['data', 'utc_timestamp'], [0]):
        return True, chain
    return False, f'sort key `{src(key.body)}` is not the stored timestamp'


def _sort_selector(key):
    """which component of a row the sort key selects: ('idx', 0) for x[0] / itemgetter(0), ('attr', name) for x.name /
    attrgetter(name) - optionally `... or ''` for rows without a timestamp"""
    if isinstance(key, ast.Call) and (dotted(key.func) or '').endswith('itemgetter') and len(key.args) == 1 and isinstance(key.args[0], ast.Constant) and key.args[0].value == 0:
        return ('idx', 0), None
    if isinstance(key, ast.Call) and (dotted(key.func) or '').endswith('attrgetter') and len(key.args) == 1 and isinstance(key.args[0], ast.Constant):
        return ('attr', key.args[0].value), None
    if not isinstance(key, ast.Lambda):
        return None, 'sort key is neither a lambda nor an itemgetter / attrgetter'
    b = key.body
    if isinstance(b, ast.BoolOp) and isinstance(b.op, ast.Or) and len(b.values) == 2 and isinstance(b.values[1], ast.Constant) and b.values[1].value == '':
        b = b.values[0]
    arg = key.args.args[0].arg if key.args.args else None
    if isinstance(b, ast.Subscript) and isinstance(b.value, ast.Name) and b.value.id == arg and isinstance(b.slice, ast.Constant) and b.slice.value == 0:
        return ('idx', 0), None
    if isinstance(b, ast.Attribute) and isinstance(b.value, ast.Name) and b.value.id == arg:
        return ('attr', b.attr), None
    return None, f'sort key `{src(key.body)}` does not select one component of the row'


def r2_order(ctx):
    corpus = ctx.corpus
    fn = corpus.func('repository', 'Repository.restore')
    ctx.analysed(fn)
    sorts = [c for c in calls_in(fn.node) if (isinstance(c.func, ast.Attribute) and c.func.attr == 'sort') or dotted(c.func) == 'sorted']
    sorts = [c for c in sorts if not any(isinstance(x, ast.Constant) and x.value == 'counter' for x in ast.walk(c))]
    ctx.floor('C15.R2', 'snapshot sort in restore', len(sorts))
    for c in sorts:
        ok, why = _ts_key_ok(kwarg(c, 'key'))
        rev = kwarg(c, 'reverse')
        okr = isinstance(rev, ast.Constant) and rev.value is True
        ctx.check(
            ok and okr and why == ['data', 'utc_timestamp'],
            'C15.R2',
            f'{func_label(fn)}|restore-newest-first',
            loc(fn, c),
            "restore sorts snapshots by x['data']['utc_timestamp'], newest first",
            f'restore: {why if not ok else "reverse=True missing"} - another version than the newest may be restored',
        )
    # loop over the sorted list in order, first occurrence wins
    cfg = cfg_of(fn.node)
    plans = []
    for n in walk_local(fn.node):
        if isinstance(n, ast.Assign):
            for t in n.targets:
                for tt in (t,) if not isinstance(t, ast.Tuple) else t.elts:
                    pass
            tl = [t for t in n.targets if isinstance(t, ast.Subscript) and isinstance(t.value, ast.Name)]
            for t in tl:
                plans.append((n, t.value.id, ast.dump(t.slice)))
    guards = []
    for n in walk_local(fn.node):
        if isinstance(n, ast.If) and any(isinstance(s, ast.Continue) for s in n.body):
            t = n.test
            if isinstance(t, ast.Compare) and len(t.ops) == 1 and isinstance(t.ops[0], ast.In) and isinstance(t.comparators[0], ast.Name):
                guards.append((n, t.comparators[0].id))
    planned_dicts = {d for _, d in guards}
    if not guards:
        ctx.fail('C15.R2', f'{func_label(fn)}|first-occurrence-wins', loc(fn, fn.node), 'restore has no `if <path> in <planned>: continue` membership guard: whether an older snapshot overrides a newer version no longer depends only on the path having been planned (e.g. a truthiness test treats an empty newest version as unplanned)')
    n_pl = 0
    for st, d, key in plans:
        if d not in planned_dicts:
            continue
        if not any(is_within(st, g) or True for g, _ in guards):
            continue
        loop_files = [a for a in _anc(st) if isinstance(a, ast.For)]
        if not loop_files:
            continue
        n_pl += 1
        g = [x for gi, _ in guards for x in cfg.nodes_of(gi, 'false')]
        ok = all(cfg.set_dominates(g, x) for x in cfg.nodes_of(st, 'stmt'))
        ctx.check(
            ok,
            'C15.R2',
            f'{func_label(fn)}|first-occurrence-wins',
            loc(fn, st),
            f'restore: the plan entry `{d}[...]` is created only when the path has not been planned by a newer snapshot',
            f'restore: `{src(st, 60)}` can overwrite the plan made from a newer snapshot (the "already planned" test does not dominate it)',
        )
    if guards:
        ctx.floor('C15.R2', 'plan-creating statements', n_pl)
    # the loop iterates the sorted list itself
    sorted_names = {c.func.value.id for c in sorts if isinstance(c.func, ast.Attribute) and isinstance(c.func.value, ast.Name)}
    for n in walk_local(fn.node):
        if isinstance(n, ast.For) and isinstance(n.iter, (ast.Call, ast.Subscript)) and any(isinstance(x, ast.Name) and x.id in sorted_names for x in ast.walk(n.iter)):
            ctx.fail('C15.R2', f'{func_label(fn)}|plan-iterates-sorted-list', loc(fn, n), f'restore iterates `{src(n.iter)}` instead of the sorted snapshot list')
    for cmd in ('list_snapshots', 'list_files'):
        f = corpus.func('repository', f'Repository.{cmd}')
        # one row per listed record: rows are collected by append, or under a key that is unique per record (its path);
        # a mapping keyed by the sort value merges records that share it (every snapshot of another key has no timestamp)
        printed = set()
        for lp in walk_local(f.node):
            if isinstance(lp, ast.For) and any(isinstance(c_, ast.Call) and dotted(c_.func) == 'print' for c_ in ast.walk(lp)):
                printed |= {x.id for x in ast.walk(lp.iter) if isinstance(x, ast.Name)}
        load_loops = [l for l in walk_local(f.node) if isinstance(l, (ast.For, ast.AsyncFor)) and any(isinstance(x, ast.Attribute) and x.attr == '_load_snapshots' for x in ast.walk(deref_at(f.node, l.iter) if isinstance(l.iter, ast.Name) else l.iter))]
        unique_names = {e.id for l in load_loops if isinstance(l.target, ast.Tuple) and l.target.elts and isinstance(l.target.elts[0], ast.Name) for e in [l.target.elts[0]]}
        for a_ in walk_local(f.node):
            if isinstance(a_, ast.Assign):
                for t in a_.targets:
                    if isinstance(t, ast.Subscript) and isinstance(t.value, ast.Name) and t.value.id in printed and any(is_within(a_, l) for l in load_loops):
                        kd = deref_at(f.node, t.slice) if isinstance(t.slice, ast.Name) else t.slice
                        uniq = any(isinstance(x, ast.Name) and x.id in unique_names for x in ast.walk(kd))
                        ctx.check(
                            uniq,
                            'C15.R2',
                            f'{func_label(f)}|one-row-per-record',
                            loc(f, a_),
                            f'{cmd}: rows are kept under a key that is unique per listed record',
                            f'{cmd}: rows are kept in `{t.value.id}` under `{src(t.slice, 40)}`, which is not unique per record: records with equal keys (all snapshots whose details cannot be decrypted, files with equal timestamps) replace each other - '
                            'existing snapshots are missing from the listing',
                        )
        ss = [c for c in calls_in(f.node) if isinstance(c.func, ast.Attribute) and c.func.attr == 'sort' and isinstance(c.func.value, ast.Name)]
        var = ss[0].func.value.id if ss else None
        ctx.floor('C15.R2', f'sort in {cmd}', len(ss))
        for c in ss:
            sel, why = _sort_selector(kwarg(c, 'key'))
            ok = sel is not None
            rev = kwarg(c, 'reverse')
            okr = isinstance(rev, ast.Constant) and rev.value is True
            # the selected component of the collected rows is the stored timestamp
            okt = False
            for a in calls_in(f.node):
                if isinstance(a.func, ast.Attribute) and a.func.attr == 'append' and isinstance(a.func.value, ast.Name) and a.func.value.id == var and a.args:
                    row = a.args[0]
                    first = None
                    if isinstance(row, ast.Tuple) and sel == ('idx', 0) and row.elts:
                        first = row.elts[0]
                    elif isinstance(row, ast.Call) and isinstance(row.func, ast.Name):
                        rc = f.module.classes.get(row.func.id)
                        fields = [st.target.id for st in rc.node.body if isinstance(st, ast.AnnAssign) and isinstance(st.target, ast.Name)] if rc is not None else []
                        idx = 0 if sel == ('idx', 0) else (fields.index(sel[1]) if sel is not None and sel[0] == 'attr' and sel[1] in fields else None)
                        if sel is not None and sel[0] == 'attr':
                            kwv = kwarg(row, sel[1])
                            if kwv is not None:
                                first = kwv
                        if first is None and idx is not None and idx < len(row.args):
                            first = row.args[idx]
                        if first is None and idx is not None and fields and idx < len(fields):
                            first = kwarg(row, fields[idx])
                    if first is not None:
                        fv = deref_at(f.node, first) if isinstance(first, ast.Name) else first
                        cands = [fv.body, fv.orelse] if isinstance(fv, ast.IfExp) else [fv]
                        if any(isinstance(x, ast.Subscript) and isinstance(x.slice, ast.Constant) and x.slice.value == 'utc_timestamp' for x in cands):
                            okt = True
            ctx.check(
                ok and okr and okt,
                'C15.R2',
                f'{func_label(f)}|listing-newest-first',
                loc(f, c),
                f'{cmd} orders rows by the stored utc_timestamp, newest first',
                f'{cmd}: rows are not ordered by the stored timestamp descending ({why if not ok else "reverse/timestamp element"})',
            )


def _anc(n):
    cur = getattr(n, '_parent', None)
    while cur is not None:
        yield cur
        cur = getattr(cur, '_parent', None)


def r1b_header_follows_columns(ctx):
    """the header of a listing is built for the same columns, in the same order, as the cells: the label tables are looked
    up per selected column (`LABELS[column]`), never iterated on their own"""
    corpus = ctx.corpus
    cls = repo_cls(corpus)
    tables = {n for c in corpus.mro(cls) for n in c.consts if n.endswith('COLUMN_LABELS')}
    ctx.floor('C15.R1', 'column label tables', len(tables), 2)
    for cmd in ('list_snapshots', 'list_files'):
        f = corpus.method(cls, cmd)
        ctx.analysed(f)
        bad = []
        for n in ast.walk(f.node):
            it = None
            if isinstance(n, (ast.For, ast.AsyncFor)):
                it = n.iter
            elif isinstance(n, ast.comprehension):
                it = n.iter
            if it is None:
                continue
            it = deref(f.node, it) if isinstance(it, ast.Name) else it
            if any(isinstance(a, ast.Attribute) and a.attr in tables for a in ast.walk(it)):
                bad.append(n)
        ctx.check(
            not bad,
            'C15.R1',
            f'{func_label(f)}|header-follows-selected-columns',
            loc(f, bad[0]) if bad and hasattr(bad[0], 'lineno') else loc(f, f.node),
            f'{cmd}: header labels are looked up for the selected columns (the label table itself is not iterated)',
            f'{cmd}: the header is produced by iterating the label table `{src(bad[0].iter, 50) if bad else ""}` (its canonical order) while the cells follow the caller\'s column order: values appear under the wrong headings',
        )


def r3_regex(ctx):
    corpus = ctx.corpus
    cls = repo_cls(corpus)
    helper = corpus.method(cls, '_compile_or_none')
    if helper is not None:
        ev = Evaluator(corpus, depth=3)
        r = ev.run(helper)
        hp = [a.arg for a in helper.node.args.posonlyargs + helper.node.args.args][1:]
        shape_ok = bool(hp) and any(a[0] == 'call' and a[1] == ('name', 're.compile') and a[2] == (('param', hp[0]),) and not a[3] for a in alts(r)) and any(a == ('const', None) for a in alts(r))
        ctx.check(shape_ok, 'C15.R3', f'{func_label(helper)}|compile-helper-plain', loc(helper, helper.node), '_compile_or_none is re.compile(pattern) (no flags) or None', f'_compile_or_none changed: {show(r, limit=100)}')
    else:
        # the helper written out at its uses: every compile of a user expression is plain re.compile(<expr>) without flags
        inline = [c for m_ in cls.methods.values() for c in calls_in(m_.node, local=False) if dotted(c.func) == 're.compile']
        ctx.floor('C15.R3', 'inline re.compile of the user filters', len(inline), 3)
        for c in inline:
            ctx.check(len(c.args) == 1 and not c.keywords, 'C15.R3', 'replicat/repository.py|compile-plain', f'replicat/repository.py:{c.lineno}', 'user filters are compiled with re.compile(expr), no flags', f'`{src(c, 60)}`: user filters are compiled with flags / extra arguments at this site only')
    n = 0
    for f in [m for m in cls.methods.values()] + [x for m in cls.methods.values() for x in m.all_nested()]:
        compiled = set()
        scope = f if f.parent is None else f.parent
        for a in walk_local(scope.node):
            if isinstance(a, ast.Assign) and isinstance(a.value, ast.Call) and dotted(a.value.func) in ('self._compile_or_none', 're.compile'):
                compiled |= {t.id for t in a.targets if isinstance(t, ast.Name)}
        for c in calls_in(f.node):
            if isinstance(c.func, ast.Attribute) and c.func.attr in ('search', 'match', 'fullmatch', 'findall', 'finditer') and isinstance(c.func.value, ast.Name) and c.func.value.id in compiled:
                n += 1
                ctx.analysed(f)
                okm = c.func.attr == 'search'
                # guarded by `<re> is not None and`
                par = getattr(c, '_parent', None)
                guard = False
                rname = c.func.value.id

                def _none_test(e, op):
                    return isinstance(e, ast.Compare) and len(e.ops) == 1 and isinstance(e.left, ast.Name) and e.left.id == rname and isinstance(e.ops[0], op) and isinstance(e.comparators[0], ast.Constant) and e.comparators[0].value is None

                prev = c
                for a in _anc(c):
                    if isinstance(a, ast.BoolOp):
                        idx = next((i for i, v in enumerate(a.values) if v is prev), None)
                        earlier = a.values[:idx] if idx is not None else []
                        # `re is not None and re.search(..)`  /  `re is None or re.search(..)`
                        if isinstance(a.op, ast.And) and any(_none_test(v, ast.IsNot) for v in earlier):
                            guard = True
                        if isinstance(a.op, ast.Or) and any(_none_test(v, ast.Is) for v in earlier):
                            guard = True
                    prev = a
                if not guard:
                    # an enclosing / preceding `if re is None` / `if re is not None` decides it on the CFG
                    from ..cfg import cfg_of as _cfg_of

                    fcfg = _cfg_of(f.node)
                    nn = []
                    for i in walk_local(f.node):
                        if isinstance(i, ast.If) and _none_test(i.test, ast.Is):
                            nn += fcfg.nodes_of(i, 'false')
                        elif isinstance(i, ast.If) and _none_test(i.test, ast.IsNot):
                            nn += fcfg.nodes_of(i, 'true')
                    st = enclosing_stmt(c)
                    nodes = fcfg.nodes_of(st, ('stmt', 'test'))
                    guard = bool(nn) and bool(nodes) and all(fcfg.set_dominates(nn, x) for x in nodes)
                ctx.check(
                    okm and guard,
                    'C15.R3',
                    f'{func_label(f)}|filter-uses-search:{c.func.value.id}',
                    loc(f, c),
                    f'{f.qual}: `{c.func.value.id}.search(...)` guarded by `is not None`',
                    f'{f.qual}: filter `{src(c, 60)}` uses .{c.func.attr} (other sites use .search) or is not guarded by `is not None`: the same expression selects different snapshots/files in different commands',
                )
    ctx.floor('C15.R3', 'regex application sites', n, 5)
    # CLI combiner is transparent
    ut = corpus.module('utils')
    comb = ut.functions.get('combine_regexes')
    if comb is None:
        raise AnalysisError('C15.R3: utils.combine_regexes missing')
    ev = Evaluator(corpus, depth=3)
    r = ev.run(comb)
    cp = [a.arg for a in comb.node.args.posonlyargs + comb.node.args.args]
    okc = bool(cp) and strip_sites(r) == ('call', ('attr', ('const', '|'), 'join'), (('param', cp[0]),), ())
    if not okc and r[0] == 'call' and r[1] == ('attr', ('const', '|'), 'join') and len(r[2]) == 1 and r[2][0][0] == 'seq*':
        el = r[2][0][1]
        okc = el[0] == 'fstr' and [p for p in el[1] if p[0] == 'const'] == [('const', '(?:'), ('const', ')')]
    ctx.check(
        okc,
        'C15.R3',
        f'{func_label(comb)}|regex-combiner-transparent',
        loc(comb, comb.node),
        "combine_regexes joins the user's expressions with '|' unchanged (or in non-capturing groups)",
        f'combine_regexes rewrites the user\'s expressions ({show(r, limit=120)}): group numbering / anchors change when several filters are given',
    )
    mn = corpus.module('main').functions.get('_combine_optional_regexes')
    if mn is not None:
        ev = Evaluator(corpus, depth=2)
        r = ev.run(mn)
        mp = [a.arg for a in mn.node.args.posonlyargs + mn.node.args.args]
        P = ('param', mp[0]) if mp else None
        okm = all(
            a == ('const', None)
            or (a[0] == 'call' and a[1][0] == 'func' and a[1][1].endswith('combine_regexes') and a[2] == (P,))
            or strip_sites(a) == ('call', ('attr', ('const', '|'), 'join'), (P,), ())
            for a in alts(r)
        ) and len(alts(r)) == 2
        ctx.check(okm, 'C15.R3', f'{func_label(mn)}|cli-combiner-delegates', loc(mn, mn.node), '_combine_optional_regexes is combine_regexes(value) or None', f'_combine_optional_regexes changed: {show(r, limit=140)}')


def r4_refusal(ctx):
    corpus = ctx.corpus
    roles = DeleteRoles(corpus)
    fn, cfg = roles.fn, roles.cfg
    ctx.analysed(fn)
    refusals = [n for n in fn.node.body if isinstance(n, ast.If) and body_always_raises(n.body) and isinstance(n.test, ast.Name)]
    if not refusals:
        ctx.fail('C15.R4', f'{func_label(fn)}|refusal-dominates-deletion', loc(fn, fn.node), 'delete_snapshots has no "requested names that are not available -> raise" test before the deletions: a request naming an unknown snapshot is executed in part')
    after = cfg.nodes_of(roles.loop, 'join')
    for r in refusals:
        ok = all(cfg.set_dominates(after, x) for x in cfg.nodes_of(r, 'test'))
        ctx.check(ok, 'C15.R4', f'{func_label(fn)}|refusal-after-load-loop', loc(fn, r), 'the "unknown names" refusal is evaluated after all snapshots were loaded', 'the refusal is evaluated before the load loop finished')
    confirms = [n for n in walk_local(fn.node) if isinstance(n, ast.If) and any(isinstance(c, ast.Call) and dotted(c.func) == 'input' for c in ast.walk(n.test))]
    joins = [st for k in roles.joins.values() for st, _ in k]
    ctx.floor('C15.R4', 'deleting joins', len(joins), 2)
    g = [x for r in refusals for x in cfg.nodes_of(r, 'false')]
    for st in joins:
        ok = bool(g) and all(cfg.set_dominates(g, x) for x in cfg.nodes_of(st, ('stmt', 'with_enter')))
        ctx.check(
            ok,
            'C15.R4',
            f'{func_label(fn)}|refusal-dominates-deletion',
            loc(fn, st),
            'every deletion is dominated by the passing edge of the "all requested names are available" test',
            'a deletion is reachable before/without the "unknown snapshot names -> raise" refusal: part of the request is executed although it should be refused as a whole',
        )
        if confirms:
            gc = [x for c in confirms for x in cfg.nodes_of(c, 'false')]
            outer = [x for c in confirms for a in _anc(c) if isinstance(a, ast.If) for x in cfg.nodes_of(a, 'false')]
            okc = all(cfg.set_dominates(gc + outer, x) for x in cfg.nodes_of(st, ('stmt', 'with_enter')))
            ctx.check(okc, 'C15.R4', f'{func_label(fn)}|confirmation-dominates-deletion', loc(fn, st), 'the confirmation prompt (when enabled) precedes every deletion', 'a deletion is reachable without the confirmation prompt')


def r5_quantities(ctx):
    corpus = ctx.corpus
    cls = repo_cls(corpus)
    # size = sum of range differences
    for nm in ('_extract_snapshot_size', '_format_file_size'):
        f = corpus.method(cls, nm)
        if f is None:
            raise AnalysisError(f'C15.R5: {nm} missing')
        ctx.analysed(f)
        sums = [c for c in calls_in(f.node) if dotted(c.func) == 'sum']
        ok = False
        for c in sums:
            for g in ast.walk(c):
                if isinstance(g, ast.GeneratorExp) and isinstance(g.elt, ast.BinOp) and isinstance(g.elt.op, ast.Sub):
                    l, r = g.elt.left, g.elt.right
                    if isinstance(l, ast.Subscript) and isinstance(r, ast.Subscript) and isinstance(l.slice, ast.Constant) and isinstance(r.slice, ast.Constant) and (l.slice.value, r.slice.value) == (1, 0) and ast.dump(l.value) == ast.dump(r.value):
                        ok = True
        uses_range = any(isinstance(x, ast.Constant) and x.value == 'range' for x in ast.walk(f.node)) and any(isinstance(x, ast.Constant) and x.value == 'chunks' for x in ast.walk(f.node))
        ctx.check(ok and uses_range, 'C15.R5', f'{func_label(f)}|size-is-sum-of-range-lengths', loc(f, f.node), f"{nm}: size = sum(r[1] - r[0]) over the record's chunk ranges", f'{nm}: size is not the sum of (end - start) over the listed record\'s chunk ranges')
    # counts: the cell of the count columns is len(<record>[key]) (or the falsy record itself for a foreign snapshot),
    # judged on the value the column getter returns, wherever the computation lives
    shapes = {
        '_format_snapshot_file_count': 'files',
        '_format_file_chunk_count': 'chunks',
    }
    for nm, key in shapes.items():
        f = corpus.method(cls, nm)
        if f is None:
            raise AnalysisError(f'C15.R5: {nm} missing')
        ctx.analysed(f)
        r = strip_sites(Evaluator(corpus, depth=3).run(f))

        def leaves(t):
            if t[0] == 'alt':
                for x in t[1]:
                    yield from leaves(x)
            elif t[0] == 'bool':
                for x in t[2]:
                    yield from leaves(x)
            else:
                yield t

        lv = list(leaves(r))
        is_len = lambda t: t[0] == 'call' and t[1] == ('name', 'len') and len(t[2]) == 1 and t[2][0][0] == 'sub' and t[2][0][1][0] == 'param' and t[2][0][2] == ('const', key)
        ok = any(is_len(t) for t in lv) and all(is_len(t) or t[0] == 'param' or t == ('const', None) for t in lv)
        ctx.check(ok, 'C15.R5', f'{func_label(f)}|count-is-len', loc(f, f.node), f"{nm}: len(record['{key}'])", f'{nm} no longer returns len(record[{key!r}]): {show(r, limit=120)}')
    # getters read only their own arguments
    getters = [m for m in cls.methods.values() if m.name.startswith(('_format_file_', '_format_snapshot_', '_format_snaphot_', '_extract_snapshot_'))]
    ctx.floor('C15.R5', 'column getters', len(getters), 12)
    for g in getters:
        params = {a.arg for a in g.node.args.args + g.node.args.kwonlyargs}
        attrs = [a for a in ast.walk(g.node) if isinstance(a, ast.Attribute) and isinstance(a.value, ast.Name) and a.value.id == 'self' and not a.attr.startswith(('_extract_', '_metadata_', 'parse_snapshot_location', 'EMPTY'))]
        ctx.check(
            not attrs,
            'C15.R5',
            f'{func_label(g)}|getter-reads-only-its-record',
            loc(g, g.node),
            f'{g.name} computes its cell from its own arguments only',
            f'{g.name} reads instance state `self.{attrs[0].attr if attrs else ""}`: the cell no longer reflects the listed record',
        )
    # times: ns / 1e9, legacy seconds as they are
    f = corpus.method(cls, '_metadata_ts_to_dt')
    if f is None:
        raise AnalysisError('C15.R5: _metadata_ts_to_dt missing')
    ctx.analysed(f)
    ev = Evaluator(corpus, depth=3)
    r = ev.run(f)
    ts_terms = find(r, lambda y: y[0] == 'call' and y[1][0] == 'name' and y[1][1].endswith('fromtimestamp'))
    ctx.floor('C15.R5', 'fromtimestamp in _metadata_ts_to_dt', len(ts_terms))
    for t in ts_terms:
        arg = t[2][0] if t[2] else None
        ns_ok = legacy_ok = False
        for a in alts(arg):
            reads = find(a, lambda y: (y[0] == 'sub' and y[1] == ('param', 'metadata')) or (y[0] == 'call' and y[1][0] == 'attr' and y[1][2] == 'get' and y[1][1] == ('param', 'metadata')))
            legacy = [x for x in walk(a) if (x[0] == 'sub' and x[1] == ('param', 'key') and x[2][0] == 'slice')]
            scaled = a[0] == 'bin' and a[1] == 'Div' and a[3] in (('const', 1e9), ('const', 1000000000), ('const', 1_000_000_000.0))
            if legacy:
                legacy_ok = not scaled
            elif reads:
                ns_ok = scaled and contains(a[2], lambda y: y == ('sub', ('param', 'metadata'), ('param', 'key')))
        ctx.check(
            ns_ok and legacy_ok,
            'C15.R5',
            f'{func_label(f)}|time-units',
            loc(f, f.node),
            'listed times: st_*_ns values are divided by 1e9, legacy st_* (seconds) values are used as they are',
            f'listed times use the wrong unit for one of the two metadata generations (ns scaled: {ns_ok}, legacy unscaled: {legacy_ok}): {show(arg, limit=160)}',
        )
    # restore sizes: chunk_size = end - start of the listed range; position accumulates chunk_size
    fn = corpus.func('repository', 'Repository.restore')
    ok = False
    for a in walk_local(fn.node):
        if isinstance(a, ast.Assign) and isinstance(a.value, ast.BinOp) and isinstance(a.value.op, ast.Sub) and isinstance(a.value.left, ast.Name) and isinstance(a.value.right, ast.Name):
            for u in walk_local(fn.node):
                if isinstance(u, ast.Assign) and isinstance(u.targets[0], ast.Tuple) and len(u.targets[0].elts) == 2 and isinstance(u.value, ast.Subscript) and isinstance(u.value.slice, ast.Constant) and u.value.slice.value == 'range':
                    lo, hi = u.targets[0].elts
                    if isinstance(lo, ast.Name) and isinstance(hi, ast.Name) and (a.value.left.id, a.value.right.id) == (hi.id, lo.id):
                        ok = True
    ctx.check(ok, 'C15.R5', f'{func_label(fn)}|restore-range-length', loc(fn, fn.node), 'restore: a reference contributes end - start bytes', 'restore: reference length is not end - start')


def r2b_every_loaded_snapshot_is_listed(ctx, rule='C15.R2'):
    """list_snapshots shows every snapshot the loader hands it - also those of other users of the key family, whose details
    cannot be decrypted (their row shows the name and placeholders).  No path through the body of the loading loop goes
    on to the next snapshot without having stored a row."""
    corpus = ctx.corpus
    f = corpus.func('repository', 'Repository.list_snapshots')
    ctx.analysed(f)
    cfg = cfg_of(f.node)
    loops = [l for l in walk_local(f.node) if isinstance(l, (ast.For, ast.AsyncFor)) and any(isinstance(x, ast.Attribute) and x.attr == '_load_snapshots' for x in ast.walk(deref_at(f.node, l.iter) if isinstance(l.iter, ast.Name) else l.iter))]
    ctx.floor(rule, 'loop over _load_snapshots in list_snapshots', len(loops))
    for lp in loops:
        stores = [enclosing_stmt(c) for c in ast.walk(lp) if isinstance(c, ast.Call) and isinstance(c.func, ast.Attribute) and c.func.attr in ('append', 'add', 'insert', 'setdefault') and isinstance(c.func.value, ast.Name)]
        stores = [s_ for s_ in stores if getattr(s_, '_parent', None) is lp or not any(isinstance(a, (ast.For, ast.AsyncFor, ast.While)) and a is not lp and is_within(a, lp) for a in ancestors(s_))]
        stores += [a for a in walk_local(lp) if isinstance(a, ast.Assign) and any(isinstance(t, ast.Subscript) for t in a.targets) and not any(isinstance(x, (ast.For, ast.AsyncFor, ast.While)) and x is not lp and is_within(x, lp) for x in ancestors(a))]
        snodes = [x for s_ in stores for x in cfg.nodes_of(s_, ('stmt', 'ok'))]
        heads = cfg.nodes_of(lp, 'loop')
        skip = None
        for t in cfg.nodes_of(lp, 'true'):
            skip = skip or cfg.path(t, heads, avoid=snodes, kinds=('normal',))
        ctx.check(
            bool(snodes) and skip is None,
            rule,
            f'{func_label(f)}|every-loaded-snapshot-gets-a-row',
            loc(f, lp),
            'list_snapshots: every snapshot the loader yields is stored as a row (foreign ones with placeholders)',
            'list_snapshots: a loaded snapshot can be passed over without a row (e.g. `data is None -> continue`): snapshots made under another key of the family - which the user is entitled to see exist - '
            'are missing from the listing',
        )


def _fold(e, consts):
    """Constant folding of the integer arithmetic used in unit tables."""
    if isinstance(e, ast.Constant) and isinstance(e.value, (int, float)) and not isinstance(e.value, bool):
        return e.value
    if isinstance(e, ast.Name) and e.id in consts:
        return _fold(consts[e.id], {})
    if isinstance(e, ast.BinOp):
        l, r = _fold(e.left, consts), _fold(e.right, consts)
        if l is None or r is None:
            return None
        if isinstance(e.op, ast.Pow) and abs(r) < 16:
            return l**r
        if isinstance(e.op, ast.Mult):
            return l * r
    return None


def r5b_human_sizes(ctx):
    """The sizes in the listings go through utils.bytes_to_human.  Whatever its form, the number printed with a unit is
    the byte count divided by that unit's own power of 1000: a cell that pairs a unit with another divisor shows a size
    that is off by a factor of 1000.  Decided on the two forms a unit scaler takes: a chain of range tests assigning
    (divisor, unit) pairs, or a loop over a constant unit sequence dividing as it goes (unrolled here over that constant)."""
    corpus = ctx.corpus
    um = corpus.module('utils')
    f = um.functions.get('bytes_to_human')
    if f is None:
        raise AnalysisError('C15.R5: utils.bytes_to_human missing')
    ctx.analysed(f)
    consts = {k: v for k, v in um.assigns.items()}
    order = ['B', 'K', 'M', 'G', 'T', 'P', 'E']
    key = f'{func_label(f)}|unit-matches-divisor'
    val = f.node.args.args[0].arg
    loops = [l for l in walk_local(f.node) if isinstance(l, (ast.For, ast.While))]
    problems, npairs = [], 0
    if not loops:
        bodies = []
        for i in [x for x in walk_local(f.node) if isinstance(x, ast.If)]:
            bodies.append((i, i.body))
            if i.orelse and not (len(i.orelse) == 1 and isinstance(i.orelse[0], ast.If)):
                bodies.append((None, i.orelse))
        for gov, body in bodies:
            num = unit = first = None
            for a in body:
                if not isinstance(a, ast.Assign):
                    continue
                pairs = list(zip(a.targets[0].elts, a.value.elts)) if isinstance(a.targets[0], ast.Tuple) and isinstance(a.value, ast.Tuple) and len(a.targets[0].elts) == len(a.value.elts) else [(a.targets[0], a.value)]
                for tg, v in pairs:
                    if isinstance(v, ast.Name) and isinstance(consts.get(v.id), ast.Call):
                        # a named (divisor, suffix) record bound once at module level
                        rc = consts[v.id]
                        parts_ = list(rc.args) + [k.value for k in rc.keywords]
                        nums_ = [_fold(x, consts) for x in parts_]
                        strs_ = [x.value for x in parts_ if isinstance(x, ast.Constant) and isinstance(x.value, str) and x.value in order]
                        if len(strs_) == 1 and any(x is not None for x in nums_):
                            unit, num, first = strs_[0], next(x for x in nums_ if x is not None), first or a
                        continue
                    if isinstance(v, ast.Constant) and isinstance(v.value, str) and v.value in order:
                        unit, first = v.value, first or a
                    elif _fold(v, consts) is not None:
                        num, first = _fold(v, consts), first or a
            if num is None or unit is None:
                continue
            npairs += 1
            a = first
            if num != 1000 ** order.index(unit):
                problems.append((a, f'unit {unit!r} is paired with the divisor {num}'))
            t = gov.test if gov is not None else None
            if isinstance(t, ast.Compare) and all(isinstance(o, (ast.Lt, ast.LtE)) for o in t.ops):
                terms = [t.left] + list(t.comparators)
                folded = [_fold(x, consts) for x in terms]
                vi = [i for i, x in enumerate(terms) if isinstance(x, ast.Name) and x.id == val]
                if len(vi) == 1:
                    i = vi[0]
                    lo = folded[i - 1] if i > 0 else None
                    hi = folded[i + 1] if i + 1 < len(folded) else None
                    if hi is not None and hi != num * 1000:
                        problems.append((a, f'values below {hi} are shown in {unit!r} (divisor {num})'))
                    if lo is not None and lo != num and not (num == 1 and lo == 0):
                        problems.append((a, f'values from {lo} are shown in {unit!r} (divisor {num})'))
        if npairs < 2:
            raise AnalysisError('C15.R5: the unit selection of utils.bytes_to_human is in a form this rule does not model')
    else:
        if len(loops) != 1 or not isinstance(loops[0], ast.For):
            raise AnalysisError('C15.R5: the unit loop of utils.bytes_to_human is in a form this rule does not model')
        lp = loops[0]
        it = lp.iter
        trim = 0
        tbl = consts.get(it.id) if isinstance(it, ast.Name) else it
        if isinstance(lp.target, ast.Tuple) and isinstance(tbl, (ast.Tuple, ast.List)) and tbl.elts and all(isinstance(r, (ast.Tuple, ast.List)) and len(r.elts) == len(lp.target.elts) for r in tbl.elts):
            # table form: rows of (upper bound, divisor, unit); the loop stops at the first row whose bound exceeds the value
            tnames = [t.id if isinstance(t, ast.Name) else None for t in lp.target.elts]
            brk = [st for st in lp.body if isinstance(st, ast.If) and len(st.body) == 1 and isinstance(st.body[0], ast.Break) and isinstance(st.test, ast.Compare) and len(st.test.ops) == 1 and isinstance(st.test.ops[0], ast.Lt) and isinstance(st.test.left, ast.Name) and st.test.left.id == val and isinstance(st.test.comparators[0], ast.Name) and st.test.comparators[0].id in tnames]
            if len(lp.body) != 1 or len(brk) != 1:
                raise AnalysisError('C15.R5: the unit table loop of utils.bytes_to_human is in a form this rule does not model')
            bi = tnames.index(brk[0].test.comparators[0].id)
            rows = []
            for r in tbl.elts:
                nums = [(_i, _fold(x, consts)) for _i, x in enumerate(r.elts)]
                us = [x.value for x in r.elts if isinstance(x, ast.Constant) and isinstance(x.value, str)]
                dv = [v for _i, v in nums if _i != bi and v is not None]
                if len(us) != 1 or len(dv) != 1 or nums[bi][1] is None:
                    raise AnalysisError('C15.R5: a row of the unit table of utils.bytes_to_human is not (bound, divisor, unit)')
                rows.append((nums[bi][1], dv[0], us[0], r))
            for bound, dv, u, r in rows:
                npairs += 1
                if u not in order or dv != 1000 ** order.index(u):
                    problems.append((lp, f'unit {u!r} is paired with the divisor {dv}'))
                elif bound != dv * 1000:
                    problems.append((lp, f'values below {bound} are shown in {u!r} (divisor {dv})'))
            flat_n = [_fold(st.value, consts) for st in lp.orelse if isinstance(st, ast.Assign) and not isinstance(st.value, (ast.Tuple, ast.List, ast.Name))]
            flat_u = [st.value.value for st in lp.orelse if isinstance(st, ast.Assign) and isinstance(st.value, ast.Constant) and isinstance(st.value.value, str)]
            flat_n = [x for x in flat_n if x is not None]
            if lp.orelse and len(flat_n) == 1 and len(flat_u) == 1 and all(isinstance(st, ast.Assign) for st in lp.orelse):
                npairs += 1
                if flat_u[0] not in order or flat_n[0] != 1000 ** order.index(flat_u[0]):
                    problems.append((lp.orelse[0], f'unit {flat_u[0]!r} is paired with the divisor {flat_n[0]}'))
            else:
              for st in lp.orelse:
                v = st.value if isinstance(st, ast.Assign) else None
                v = consts.get(v.id) if isinstance(v, ast.Name) else v
                if isinstance(v, (ast.Tuple, ast.List)):
                  nums = [x for x in (_fold(e_, consts) for e_ in v.elts) if x is not None]
                  us = [e_.value for e_ in v.elts if isinstance(e_, ast.Constant) and isinstance(e_.value, str)]
                  if len(nums) == 1 and len(us) == 1:
                      npairs += 1
                      if us[0] not in order or nums[0] != 1000 ** order.index(us[0]):
                          problems.append((st, f'unit {us[0]!r} is paired with the divisor {nums[0]}'))
                      continue
                raise AnalysisError('C15.R5: the fallback of the unit table loop of utils.bytes_to_human is in a form this rule does not model')
            ctx.check(
                not problems,
                'C15.R5',
                key,
                loc(f, problems[0][0] if problems else f.node),
                f'utils.bytes_to_human: each of the {npairs} unit choices prints the byte count divided by that unit\'s own power of 1000',
                f'utils.bytes_to_human: {problems[0][1] if problems else ""}: sizes in the listings are off by a factor of 1000 in that range',
            )
            return
        if isinstance(it, ast.Subscript) and isinstance(it.slice, ast.Slice) and it.slice.lower is None and it.slice.step is None and isinstance(it.slice.upper, ast.UnaryOp) and isinstance(it.slice.upper.op, ast.USub) and isinstance(it.slice.upper.operand, ast.Constant):
            trim = it.slice.upper.operand.value
            it = it.value
        if isinstance(it, ast.Name) and it.id in consts:
            it = consts[it.id]
        if isinstance(it, ast.Constant) and isinstance(it.value, str):
            units_all = list(it.value)
        elif isinstance(it, (ast.Tuple, ast.List)) and all(isinstance(e, ast.Constant) and isinstance(e.value, str) for e in it.elts):
            units_all = [e.value for e in it.elts]
        else:
            raise AnalysisError('C15.R5: the unit sequence of utils.bytes_to_human is not a constant')
        units = units_all[: len(units_all) - trim] if trim else units_all
        if not isinstance(lp.target, ast.Name) or any(u not in order for u in units_all):
            raise AnalysisError('C15.R5: the unit loop of utils.bytes_to_human is in a form this rule does not model')
        uvar = lp.target.id

        def is_div(st):
            if isinstance(st, ast.AugAssign) and isinstance(st.op, (ast.Div, ast.FloorDiv)) and isinstance(st.target, ast.Name) and st.target.id == val:
                return _fold(st.value, consts)
            if isinstance(st, ast.Assign) and isinstance(st.targets[0], ast.Name) and st.targets[0].id == val and isinstance(st.value, ast.BinOp) and isinstance(st.value.op, (ast.Div, ast.FloorDiv)) and isinstance(st.value.left, ast.Name) and st.value.left.id == val:
                return _fold(st.value.right, consts)
            return None

        exits = []  # (divisions, unit, how)
        count = 0
        for i, u in enumerate(units):
            for st in lp.body:
                d = is_div(st)
                if d is not None:
                    if d != 1000:
                        problems.append((st, f'each step divides by {d}'))
                    count += 1
                elif isinstance(st, ast.If) and len(st.body) == 1 and isinstance(st.body[0], ast.Break) and not st.orelse:
                    exits.append((count, u, st))
                elif isinstance(st, ast.If) and len(st.body) == 1 and isinstance(st.body[0], ast.Return):
                    exits.append((count, u, st))
                elif isinstance(st, (ast.Expr, ast.Pass)):
                    continue
                else:
                    raise AnalysisError('C15.R5: the unit loop of utils.bytes_to_human is in a form this rule does not model')
        last_unit = units[-1] if units else None
        for st in lp.orelse:
            if isinstance(st, ast.Assign) and isinstance(st.targets[0], ast.Name) and st.targets[0].id == uvar:
                v = st.value
                if isinstance(v, ast.Constant):
                    last_unit = v.value
                elif isinstance(v, ast.Subscript) and isinstance(v.slice, ast.UnaryOp) and isinstance(v.slice.operand, ast.Constant) and v.slice.operand.value == 1:
                    last_unit = units_all[-1]
                else:
                    raise AnalysisError('C15.R5: the unit loop of utils.bytes_to_human is in a form this rule does not model')
            elif is_div(st) is not None:
                count += 1
            else:
                raise AnalysisError('C15.R5: the unit loop of utils.bytes_to_human is in a form this rule does not model')
        exits.append((count, last_unit, lp))
        npairs = len(exits)
        for cnt, u, st in exits:
            if u not in order or cnt != order.index(u):
                problems.append((st, f'leaving the unit loop {"by exhaustion" if st is lp else "at " + repr(u)} the value has been divided by 1000 {cnt} time(s) but is printed with the unit {u!r}'))
    ctx.check(
        not problems,
        'C15.R5',
        key,
        loc(f, problems[0][0] if problems else f.node),
        f'utils.bytes_to_human: each of the {npairs} unit choices prints the byte count divided by that unit\'s own power of 1000',
        f'utils.bytes_to_human: {problems[0][1] if problems else ""}: sizes in the listings are off by a factor of 1000 in that range',
    )


def r6_placeholder_only_for_none(ctx):
    """The table placeholder stands for "no value" (None) only.  A count of 0, an empty note or any other falsy value
    is a value and is printed as it is: the substitution is decided by a None test, never by truthiness."""
    corpus = ctx.corpus
    cls = repo_cls(corpus)
    n = 0
    for m in list(cls.methods.values()) + [x for mm in cls.methods.values() for x in mm.all_nested()]:
        for u in walk_local(m.node):
            if not (isinstance(u, ast.Attribute) and u.attr == 'EMPTY_TABLE_VALUE' and isinstance(u.ctx, ast.Load)):
                continue
            n += 1
            ctx.analysed(m)
            par = getattr(u, '_parent', None)
            verdict, why = True, ''
            if isinstance(par, ast.BoolOp):
                verdict, why = False, f'`{src(par, 70)}` substitutes the placeholder for every falsy value'
            else:
                # the governing test: an enclosing conditional expression / if statement
                cur, test = u, None
                while cur is not None and cur is not m.node:
                    p2 = getattr(cur, '_parent', None)
                    if isinstance(p2, ast.IfExp) and cur is not p2.test:
                        test = p2.test
                        break
                    if isinstance(p2, ast.If) and not any(cur is x for x in ast.walk(p2.test)):
                        test = p2.test
                        break
                    cur = p2
                if test is not None:
                    t = test
                    while isinstance(t, ast.UnaryOp) and isinstance(t.op, ast.Not):
                        t = t.operand
                    none_test = isinstance(t, ast.Compare) and len(t.ops) == 1 and isinstance(t.ops[0], (ast.Is, ast.IsNot, ast.Eq, ast.NotEq)) and isinstance(t.comparators[0], ast.Constant) and t.comparators[0].value is None
                    if not none_test:
                        verdict, why = False, f'the placeholder is chosen on `{src(test, 60)}`, not on a None test'
            ctx.check(
                verdict,
                'C15.R6',
                f'{func_label(m)}|placeholder-only-for-none',
                loc(m, u),
                f'{m.name}: the table placeholder replaces None only',
                f'{m.name}: {why}: a file count / chunk count of 0 (or an empty note) is printed as "{"--"}" - the listing no longer shows the recorded quantity',
            )
    ctx.floor('C15.R6', 'uses of the table placeholder', n, 2)


def run(ctx):
    from .shared import leftover_from_finished_loop

    _ls = [ctx.corpus.func('repository', 'Repository.list_files'), ctx.corpus.func('repository', 'Repository.list_snapshots'), ctx.corpus.func('repository', 'Repository._load_snapshots')]
    leftover_from_finished_loop(ctx, 'C15.R1', _ls + [n for g in _ls for n in g.all_nested()], 'listing rows')
    from .shared import late_binding_closures

    # the listings show every snapshot the store holds: the adapter's listing reaches what exists() / download() reach
    from ..report import Relabel as _RL15
    from .c13 import r3b_local_prefix_scan

    r3b_local_prefix_scan(_RL15(ctx, 'C15.R1'))
    late_binding_closures(ctx, 'C15.R5', [m for m in repo_cls(ctx.corpus).methods.values()] + [n for m in repo_cls(ctx.corpus).methods.values() for n in m.all_nested()], 'listings')
    r1_one_name(ctx)
    r1b_header_follows_columns(ctx)
    r2_order(ctx)
    r2b_every_loaded_snapshot_is_listed(ctx)
    r3_regex(ctx)
    r4_refusal(ctx)
    r5_quantities(ctx)
    r5b_human_sizes(ctx)
    r6_placeholder_only_for_none(ctx)
    from .c13 import r2_pagination

    r2_pagination(_RL15(ctx, 'C15.R1'))
