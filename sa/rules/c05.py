"""C05 - An encrypted repository reveals no plaintext at rest.

Taint analysis over provenance terms in encrypted mode: secrets / plaintext /
digests / names reach the backend, the key file or the printed key only through
encrypt (payloads) or MAC (names); nonce freshness per encryption call; the
snapshot body split.  Not decided: nonce collision probability, cipher strength."""
from __future__ import annotations

import ast

from ..astutil import calls_in, dotted, src, walk_local
from ..loader import AnalysisError
from ..terms import NONE, Evaluator, alts, contains, find, show, strip_sites, walk
from .common import backend_events, const_of, evaluate, func_label, loc, own_stmt_of_chain, repo_cls, term_has_const
from .scheme import norm, nshow

EXPLANATION = (
    'Information-flow (taint) analysis over the provenance terms of every value that reaches a sink in encrypted mode. Sinks: name and payload of every backend '
    'mutator reachable from init, add_key, snapshot, delete_snapshots and clean; the bytes written to the key file; the key printed on stdout. Sources: stream '
    'content and its digests, recorded paths / metadata / note, generated key material, derived keys, the password. Sanitizers: cipher.encrypt (payloads), keyed MAC '
    '(names). The config object and the user-KDF parameters of a key are allowed in clear because their terms contain no source. Plus nonce freshness (a new '
    'os.urandom value inside every encrypt call) and the split of the snapshot body. Rules C05.R1-R3.'
    ' Added with the seeded-defect rounds: the encryption switch of _make_config is a None test, init uploads the config it built on every successful path.'
)
NOT_DECIDED = 'that ciphertext reveals nothing (cryptography); nonce collision probability'
TRUSTED = ['AEAD confidentiality', 'os.urandom', 'CPython ast']
ASSUMPTIONS = ['log output is not "at rest" in the sense of the property (debug logging of the private section is outside its scope)']

SECRET_GENERATORS = ('generate_key', 'generate_mac_params', 'generate_chunking_params')


def _source(t):
    """Name of the source class if term t is a source atom."""
    k = t[0]
    if k == 'elem' and contains(t[1], lambda y: y[0] == 'call' and y[1][0] == 'attr' and y[1][2] == 'chunker'):
        return 'file content (chunker output)'
    if k == 'call' and t[1][0] == 'attr':
        m = t[1][2]
        if m == 'read' and contains(t[1][1], lambda y: y[0] == 'call' and y[1][0] == 'attr' and y[1][2] == 'open'):
            return 'file content (read)'
        if m in SECRET_GENERATORS:
            return f'key secret ({m})'
        if m == 'derive':
            return 'derived key'
        if m == 'generate_derivation_params' and not _is_user_kdf(t[1][1]):
            return 'shared KDF salt'
    if k == 'call' and t[1][0] == 'name':
        n = t[1][1]
        if n in ('os.stat', 'os.fstat', 'os.lstat'):
            return 'file metadata'
    if k == 'param' and t[1] in ('note', 'password', 'new_password', 'paths'):
        return f'parameter {t[1]}'
    if k == 'attr' and t[2] in ('private', 'userkey') and t[1][0] == 'attr' and t[1][2] == 'props':
        return f'unlocked key material (props.{t[2]})'
    if k == 'sub' and t[1][0] == 'attr' and t[1][2] == 'private':
        return 'unlocked key material (private[...])'
    return None


def _is_user_kdf(recv):
    """adapter built from settings['encryption']['kdf'] (or key['kdf'])"""
    return contains(recv, lambda y: y == ('const', 'kdf')) and not contains(recv, lambda y: y == ('const', 'shared_kdf'))


def taint(t, for_name=False):
    """First source reachable in t without crossing a sanitizer; None if clean."""
    stack = [t]
    seen = 0
    while stack:
        x = stack.pop()
        seen += 1
        if isinstance(x, frozenset):
            stack.extend(x)
            continue
        if not isinstance(x, tuple) or not x:
            continue
        if isinstance(x[0], str):
            if x[0] == 'call' and x[1][0] == 'attr' and x[1][2] == 'encrypt':
                continue  # ciphertext: clean
            if x[0] == 'call' and x[1][0] == 'attr' and x[1][2] == 'mac':
                continue  # keyed MAC: clean (usable as a name)
            s = _source(x)
            if s:
                return s, x
            if x[0] == 'call':
                stack.extend(x[1:4])
                continue
            if x[0] == 'inst':
                stack.extend(x[2:4])
                continue
            if x[0] in ('const', 'name', 'param', 'module', 'self', 'func', 'closure', 'lambda', 'class', 'opaque'):
                continue
            stack.extend(x[1:])
        else:
            stack.extend(x)
    return None


def r1_flows(ctx):
    corpus = ctx.corpus
    n = 0
    for cmd, kw in (('init', None), ('add_key', None), ('snapshot', None), ('delete_snapshots', {'confirm': ('const', False)}), ('clean', None)):
        fn = corpus.func('repository', f'Repository.{cmd}')
        ctx.analysed(fn, *fn.all_nested())
        variants = [{}]
        if cmd == 'add_key':
            variants = [{'shared': True}, {'shared': False}]
        for extra in variants:
            modes = {'encrypted': True}
            modes.update(extra)
            ev = evaluate(corpus, fn, modes=modes, depth=7, nonnull={'password'}, kwargs=kw)
            ctx.count('terms_built', ev.terms_built)
            for m, e in backend_events(ev, {'upload', 'upload_stream', 'delete'}):
                st = own_stmt_of_chain(e, fn)
                site = loc(fn, st) if st is not None else e.loc
                for i, role in ((0, 'object name'), (1, 'payload')):
                    if i >= len(e.args) or (m == 'delete' and i == 1):
                        continue
                    n += 1
                    r = taint(e.args[i])
                    ctx.check(
                        r is None,
                        'C05.R1',
                        f'{func_label(fn)}|no-plaintext-to-backend:{m}:{role}',
                        site,
                        f'{cmd}{extra or ""}: the {role} of backend.{m} contains sensitive data only inside ciphertext / keyed MACs',
                        f'{cmd}: the {role} handed to backend.{m} discloses {r[0] if r else ""} in an encrypted repository ({show(r[1], limit=120) if r else ""})',
                    )
            # key emission: file and stdout
            for e in ev.events:
                sink = None
                if e.method in ('write_bytes', 'write_text', 'write') and e.receiver is not None and contains(e.receiver, lambda y: y == ('param', 'key_output_path')):
                    sink = ('key file', e.args[0] if e.args else None)
                elif e.callee == ('name', 'print') and e.args and e.func is not None and e.func.name in ('init', '_add_key', 'add_key'):
                    sink = ('stdout', e.args[0])
                if sink is None or sink[1] is None:
                    continue
                if sink[0] == 'stdout' and not contains(sink[1], lambda y: y == ('const', 'private') or y == ('const', 'kdf_params')):
                    continue  # the config print
                n += 1
                r = taint(sink[1])
                ctx.check(
                    r is None,
                    'C05.R1',
                    f'{func_label(e.func)}|no-secret-in-emitted-key:{sink[0]}',
                    e.loc,
                    f'{cmd}{extra or ""}: the key emitted to {sink[0]} carries its private section only as ciphertext',
                    f'{cmd}: the key emitted to {sink[0]} discloses {r[0] if r else ""} ({show(r[1], limit=100) if r else ""}): the private section is not (yet) encrypted at this point',
                )
    ctx.floor('C05.R1', 'sink arguments analysed', n, 8)


def r2_nonce(ctx):
    corpus = ctx.corpus
    ad = corpus.module('adapters')
    base = ad.classes.get('CipherAdapter')
    if base is None:
        raise AnalysisError('C05.R2: CipherAdapter missing')
    impls = {}
    for c in ad.classes.values():
        if base in corpus.mro(c) and c is not base:
            m = corpus.method(c, 'encrypt')
            if m is not None and m.cls is not base:
                impls[m.key] = m
    ctx.floor('C05.R2', 'cipher adapter encrypt implementations', len(impls))
    for m in impls.values():
        ctx.analysed(m)
        ev = Evaluator(corpus, depth=2)
        ev.run(m)
        aead = [e for e in ev.events if e.method == 'encrypt' and e.func is m and len(e.args) >= 2]
        if not aead:
            ctx.fail(
                'C05.R2',
                f'{func_label(m)}|fresh-random-nonce-per-call',
                loc(m, m.node),
                f'{m.qual}: no AEAD encrypt(nonce, data, ..) call is made by this function itself - the nonce is not visibly drawn per encryption '
                '(e.g. it was moved into a memoised / shared helper): two ciphertexts under one key can share a nonce',
            )
        for e in aead:
            nonce = e.args[0]
            ok = nonce[0] == 'call' and nonce[1] == ('name', 'os.urandom') and len(nonce[2]) == 1
            why = ''
            if ok:
                inner = nonce[2][0]
                bad = [x for x in walk(inner) if x[0] == 'param' or (x[0] == 'call')]
                ok = not bad
                if bad:
                    why = f'the nonce length depends on {show(bad[0], limit=60)}'
            else:
                why = f'the nonce is {show(nonce, limit=100)}, not a fresh os.urandom value generated inside this call'
            ctx.check(
                ok,
                'C05.R2',
                f'{func_label(m)}|fresh-random-nonce-per-call',
                e.loc,
                f'{m.qual}: every encryption draws a fresh nonce from os.urandom inside the call',
                f'{m.qual}: {why} - two ciphertexts under one key can share a nonce (e.g. across sessions or for equal data)',
            )
        # no nonce state on self / module
        stores = [a for a in walk_local(m.node) if isinstance(a, (ast.Assign, ast.AugAssign)) and any(isinstance(t, ast.Attribute) for t in (a.targets if isinstance(a, ast.Assign) else [a.target]))]
        ctx.check(not stores, 'C05.R2', f'{func_label(m)}|encrypt-keeps-no-state', loc(m, m.node), f'{m.qual} keeps no per-instance state (counters, cached nonces)', f'{m.qual} updates instance state while encrypting (`{src(stores[0], 50) if stores else ""}`)')


def r3_body_split(ctx):
    corpus = ctx.corpus
    w = corpus.func('repository', 'Repository._encrypt_snapshot_body')
    ctx.analysed(w)
    ev = Evaluator(corpus, modes={'encrypted': True}, depth=5)
    r = norm(ev.run(w))
    ok = False
    if r[0] == 'Ser' and r[1][0] == 'dict':
        d = {a[1]: b for a, b in r[1][1] if a[0] == 'const'}
        da, ch = d.get('data'), d.get('chunks')
        ok = bool(da and ch and da[0] == 'Enc' and da[2] == ('UserKey',) and ch[0] == 'Enc' and ch[2][0] == 'Kdf' and ch[2] != ('UserKey',))
    ctx.check(
        ok,
        'C05.R3',
        f'{func_label(w)}|snapshot-body-split',
        loc(w, w.node),
        'the file list / metadata / note are encrypted under the user key; the chunk table under a sub-key of the shared key',
        f'the snapshot body is not split as documented (file data must be under the user key, chunk table under a shared sub-key): {nshow(r)[:300]}',
    )


def r4_log_channel(ctx):
    """Keys are emitted on stdout (init / add-key without -o); diagnostics - which at debug
    level include the unencrypted private section - must not be routed there."""
    corpus = ctx.corpus
    mn = corpus.module('main')
    cfgl = mn.functions.get('_configure_logging')
    if cfgl is None:
        raise AnalysisError('C05.R4: __main__._configure_logging missing')
    ctx.analysed(cfgl)
    bad = []
    n = 0
    for c in calls_in(cfgl.node):
        d = dotted(c.func) or ''
        if d.endswith(('basicConfig', 'StreamHandler', 'FileHandler')):
            n += 1
            for a in list(c.args) + [k.value for k in c.keywords]:
                if 'stdout' in src(a):
                    bad.append(c)
    ctx.floor('C05.R4', 'logging configuration calls', n)
    ctx.check(
        not bad,
        'C05.R4',
        f'{func_label(cfgl)}|diagnostics-not-on-stdout',
        loc(cfgl, bad[0]) if bad else loc(cfgl, cfgl.node),
        'log output goes to the default stream (stderr), not to stdout where init / add-key emit the key',
        'log output is routed to stdout: `init -v ... > key` / `add-key` then writes log records (parsed arguments incl. the password at INFO, the unencrypted private section at DEBUG) into the emitted key',
    )


def r5_config_from_backend(ctx):
    from ..report import Relabel
    from .c17 import r4_unlock_from_stored

    # whether encryption is on is decided by the repository's own config object, never by another copy of it
    r4_unlock_from_stored(Relabel(ctx, 'C05.R5'))


def r6_encryption_switch(ctx):
    """Whether a new repository is encrypted is decided by one question only: is the `encryption` section of the init
    settings None?  Every other value - including an empty section, i.e. "all defaults" - yields an encrypted
    repository.  A truthiness test instead of the None test stores plaintext for a user who asked for encryption."""
    from ..cfg import cfg_of, deref_at

    corpus = ctx.corpus
    mk = corpus.method(repo_cls(corpus), '_make_config')
    if mk is None:
        raise AnalysisError('C05.R6: Repository._make_config missing')
    ctx.analysed(mk)
    cfg = cfg_of(mk.node)
    # statements that put the 'encryption' section into the config
    puts = []
    for n in walk_local(mk.node):
        if isinstance(n, ast.Assign) and any(isinstance(t, ast.Subscript) and isinstance(t.slice, ast.Constant) and t.slice.value == 'encryption' for t in n.targets):
            puts.append(n)
        elif isinstance(n, ast.Dict) and any(isinstance(k, ast.Constant) and k.value == 'encryption' for k in n.keys):
            st = n
            while st is not None and not isinstance(st, ast.stmt):
                st = getattr(st, '_parent', None)
            if st is not None:
                puts.append(st)
    ctx.floor('C05.R6', "statement adding the 'encryption' section in _make_config", len(puts))
    for p_ in puts:
        guards = []
        cur = p_
        while cur is not None and cur is not mk.node:
            par = getattr(cur, '_parent', None)
            if isinstance(par, ast.If):
                guards.append((par, any(cur is x for x in par.body)))
            cur = par
        ok = True
        why = ''
        for g, in_body in guards:
            t, neg = g.test, False
            while isinstance(t, ast.UnaryOp) and isinstance(t.op, ast.Not):
                t, neg = t.operand, not neg
            about_enc = any(isinstance(c, ast.Constant) and c.value == 'encryption' for c in ast.walk(t))
            if not about_enc:
                for nm in ast.walk(t):
                    if isinstance(nm, ast.Name):
                        d = deref_at(mk.node, nm)
                        if d is not nm and any(isinstance(c, ast.Constant) and c.value == 'encryption' for c in ast.walk(d)):
                            about_enc = True
            if not about_enc:
                continue
            none_test = isinstance(t, ast.Compare) and len(t.ops) == 1 and isinstance(t.ops[0], (ast.Is, ast.IsNot)) and isinstance(t.comparators[0], ast.Constant) and t.comparators[0].value is None
            if not none_test:
                ok = False
                why = f'`{src(g.test, 60)}` is not a None test'
            else:
                enc_when_true = isinstance(t.ops[0], ast.IsNot) != neg
                if enc_when_true != in_body:
                    ok = False
                    why = f'`{src(g.test, 60)}` has the wrong polarity'
        ctx.check(
            ok,
            'C05.R6',
            f'{func_label(mk)}|encrypted-unless-section-is-none',
            loc(mk, p_),
            "_make_config: the 'encryption' section is written unless the settings say `encryption: None` (tests on it are None tests)",
            f"_make_config: whether the repository is encrypted depends on {why}: an empty `encryption` section (encryption with all defaults) yields an UNENCRYPTED repository - chunks, names and snapshot data are stored in plaintext although a password was given",
        )


def r7_init_writes_its_config(ctx, rule='C05.R6'):
    """What init returns (config, key) describes the repository it leaves behind: on every successful path the config it
    built is uploaded.  An init that keeps a config found at the location hands out an "encrypted" key for a repository
    whose stored config may say unencrypted - later sessions follow the stored config and write plaintext."""
    from ..cfg import cfg_of

    corpus = ctx.corpus
    fn = corpus.func('repository', 'Repository.init')
    ctx.analysed(fn)
    cfg = cfg_of(fn.node)
    ups = [c for c in calls_in(fn.node) if (dotted(c.func) or '').startswith('self._upload') and c.args and isinstance(c.args[0], ast.Constant) and c.args[0].value == 'config']
    ctx.floor(rule, 'upload of the config object in init', len(ups))
    from ..astutil import enclosing_stmt as _es

    unodes = [x for c in ups for x in cfg.nodes_of(_es(c), ('stmt', 'ok'))]
    skip = cfg.path(cfg.entry, [cfg.exit], avoid=unodes, kinds=('normal',))
    ctx.check(
        skip is None,
        rule,
        f'{func_label(fn)}|init-always-writes-its-config',
        loc(fn, ups[0]),
        'init: every successful path uploads the config that init built (and returns)',
        f'init can return successfully without having uploaded its config (path {" -> ".join(f"{n.kind}@{n.lineno}" for n in (skip or []) if n.lineno)[:140]}): the returned key / config need not match what is stored - '
        'e.g. an encrypted init over a leftover unencrypted config yields sessions that store everything in plaintext',
    )


def run(ctx):
    r6_encryption_switch(ctx)
    r7_init_writes_its_config(ctx)
    r5_config_from_backend(ctx)
    r4_log_channel(ctx)
    r1_flows(ctx)
    r2_nonce(ctx)
    r3_body_split(ctx)
