"""C02 - No history of snapshot/delete/clean ever damages a remaining snapshot.

Decides: keep-set completeness (path outcomes of the load loop), unfiltered
load, skip-path whitelist of the snapshot loader, subtraction before deletion,
single naming function, chunk-table completeness, content-addressed upload,
skip-upload only on the backend's own existence answer.
Not decided: concurrency of commands from several processes."""
from __future__ import annotations

import ast

from ..astutil import ancestors, calls_in, dotted, enclosing_stmt, is_within, kwarg, src, walk_local
from ..cfg import cfg_of, deref_at
from ..loader import AnalysisError
from ..terms import Evaluator, backend_method, contains, find, show, walk
from . import shared
from .common import (
    backend_events,
    const_of,
    evaluate,
    func_label,
    loc,
    nested_by_role,
    own_call_of_chain,
    own_stmt_of_chain,
    repo_cls,
    self_calls,
    term_has_const,
)
from .gcroles import DeleteRoles

EXPLANATION = (
    'Path-outcome enumeration over the CFG of the snapshot-load loop of delete_snapshots (every acyclic path through one iteration ends in '
    'raise / select-for-deletion / keep), dominance facts (loop exit < subtraction < first chunk deletion), who-may-call and provenance checks on the '
    'chunk naming function, the chunk table and the chunk upload site, and the whitelist of "no body" outcomes of the snapshot loader. Rules C02.R1-R8.'
    ' Added with the seeded-defect rounds: the keep set only grows, leftovers of a finished loop, local listings that lose entries silently (os.walk without onerror, widened OSError handlers), complete pagination of every adapter, atomic publication and rewind-before-retry of uploads, chunk-record freshness, deletion reachable only from delete / clean / delete-objects.'
    ' Round 6: adapter delete discipline (request addressed by the name argument, only the no-such-object answers absorbed).'
)
NOT_DECIDED = 'interleavings of destructive commands issued concurrently from several processes; byte-level restorability is not executed'
TRUSTED = ['CPython ast', 'hash collision resistance (content addressing)']
ASSUMPTIONS = ['the backend returns every snapshot object under the snapshot prefix when listing']


def r1_keep_set(ctx, roles: DeleteRoles):
    fn = roles.fn
    sub = roles.subtraction()
    if sub is None:
        ctx.fail(
            'C02.R4',
            f'{func_label(fn)}|keep-set-subtracted-before-chunk-deletion',
            loc(fn, fn.node),
            'delete_snapshots: no statement subtracts the chunks of the remaining snapshots from the set of chunks to delete '
            '(difference_update / -= / difference / comprehension with `not in`) before the chunk deletions',
        )
        return None
    sst, D, K = sub
    paths, head_ids, after_ids = roles.loop_paths()
    ctx.count('paths_enumerated', len(paths))
    keep_sts = roles.chunks_updates(K)
    sel_sts = roles.chunks_updates(D)
    keep_ids = {id(s) for s in keep_sts}
    sel_ids = {id(s) for s in sel_sts}
    n_iter = 0
    bad = []
    outcomes = {'raise': 0, 'select': 0, 'keep': 0}
    for p in paths:
        last = p[-1]
        if last.kind == 'raise_exit':
            outcomes['raise'] += 1
            continue
        if last.kind == 'exit':
            # return from inside the loop: nothing is deleted on this path
            outcomes['raise'] += 1
            continue
        n_iter += 1
        oks = {id(n.ast) for n in p if n.kind in ('ok', 'stmt') and n.ast is not None}
        if oks & keep_ids:
            outcomes['keep'] += 1
        elif oks & sel_ids:
            outcomes['select'] += 1
        else:
            bad.append(p)
    site = loc(fn, roles.loop)
    if not keep_sts:
        ctx.fail('C02.R1', f'{func_label(fn)}|keep-update-present', site, f'no statement adds the chunk table of a non-selected snapshot to the keep set `{K}`')
    if bad:
        p = bad[0]
        ctx.fail(
            'C02.R1',
            f'{func_label(fn)}|every-loaded-snapshot-selected-or-kept',
            site,
            f'a loaded snapshot can pass through the load loop without being selected for deletion and without its chunks being added to the keep set `{K}` '
            f'({len(bad)} of {n_iter} iteration paths): its chunks are then deleted although it remains',
            ['offending path through one iteration:'] + roles.cfg.describe_path([n for n in p if n.kind in ('true', 'false', 'stmt', 'test')][:14], fn.module),
        )
    else:
        ctx.ok('C02.R1', site, f'every path through the snapshot-load loop raises, selects the snapshot, or adds its chunks to the keep set ({outcomes})')
    # the keep set only ever grows: while snapshots are still being loaded, "not a deletion candidate so far" says nothing about
    # the candidates added by a later snapshot - a keep set that is cut down in between forgets chunks that remaining snapshots use
    shrink = []
    for n in walk_local(fn.node):
        if isinstance(n, ast.Call) and isinstance(n.func, ast.Attribute) and isinstance(n.func.value, ast.Name) and n.func.value.id == K and n.func.attr in ('intersection_update', 'difference_update', 'symmetric_difference_update', 'discard', 'remove', 'pop', 'clear'):
            shrink.append(n)
        if isinstance(n, ast.AugAssign) and isinstance(n.target, ast.Name) and n.target.id == K and isinstance(n.op, (ast.BitAnd, ast.Sub, ast.BitXor)):
            shrink.append(n)
        if isinstance(n, ast.Assign) and any(isinstance(t, ast.Name) and t.id == K for t in n.targets) and any(is_within(n, roles.loop) for _ in [0]) and is_within(n, roles.loop):
            shrink.append(n)
    ctx.check(
        not shrink,
        'C02.R1',
        f'{func_label(fn)}|keep-set-only-grows',
        loc(fn, shrink[0]) if shrink else site,
        f'delete_snapshots: the keep set `{K}` is only ever extended',
        f'delete_snapshots: the keep set `{K}` is reduced / rebound (`{src(enclosing_stmt(shrink[0]), 70) if shrink else ""}`): chunks of remaining snapshots drop out of it before all snapshots are loaded, and are then deleted',
    )
    return sub


def r1_clean_all(ctx):
    corpus = ctx.corpus
    fn = corpus.func('repository', 'Repository.clean')
    ctx.analysed(fn)
    # referenced set = comprehension / loop over ALL yielded bodies, no filter
    found = 0
    for n in walk_local(fn.node):
        if isinstance(n, (ast.SetComp, ast.ListComp, ast.GeneratorExp)):
            gens = n.generators
            if any(any(True for _ in self_calls(g.iter, {'_load_snapshots'})) for g in gens):
                found += 1
                ifs = [i for g in gens for i in g.ifs]
                ctx.check(
                    not ifs,
                    'C02.R1',
                    f'{func_label(fn)}|referenced-set-over-all-snapshots',
                    loc(fn, n),
                    'clean: the referenced set is built from the chunk tables of all loaded snapshots (no filter)',
                    f'clean: the referenced set skips snapshots by a filter `{src(ifs[0]) if ifs else ""}` - their chunks would be collected',
                )
        if isinstance(n, (ast.For, ast.AsyncFor)) and any(True for _ in self_calls(n.iter, {'_load_snapshots'})):
            found += 1
            skips = [s for s in walk_local(n) if isinstance(s, (ast.Continue, ast.Break))]
            ctx.check(
                not skips,
                'C02.R1',
                f'{func_label(fn)}|referenced-set-over-all-snapshots',
                loc(fn, n),
                'clean: the loop over loaded snapshots has no skip',
                'clean: the loop over loaded snapshots can skip a snapshot (continue/break) - its chunks would be collected',
            )
    ctx.floor('C02.R1', 'clean: construction of the referenced set from _load_snapshots()', found)


def r2_unfiltered(ctx):
    corpus = ctx.corpus
    for name in ('delete_snapshots', 'clean'):
        fn = corpus.func('repository', f'Repository.{name}')
        calls = list(self_calls(fn.node, {'_load_snapshots'}, local=False))
        ctx.floor('C02.R2', f'{name}: call of _load_snapshots', len(calls))
        for c in calls:
            bad = [k for k in c.keywords if not (isinstance(k.value, ast.Constant) and k.value.value is None)] + list(c.args)
            ctx.check(
                not bad,
                'C02.R2',
                f'{func_label(fn)}|load-snapshots-unfiltered',
                loc(fn, c),
                f'{name} loads the snapshots without a filter',
                f'{name} passes a filter to _load_snapshots ({src(c)}): snapshots outside the filter no longer protect their chunks',
            )


def _loader_chain(corpus):
    ls = corpus.func('repository', 'Repository._load_snapshots')
    entries = []
    for c in calls_in(ls.node):
        f = c.func
        if isinstance(f, ast.Attribute) and f.attr in ('run_in_executor', 'submit'):
            for a in c.args:
                if isinstance(a, ast.Name) and a.id in ls.nested:
                    entries.append(ls.nested[a.id])
                    continue
                # a partial() kept in a local / a bound method handed to the executor
                d = deref_at(ls.node, a) if isinstance(a, ast.Name) else a
                if isinstance(d, ast.Call) and (dotted(d.func) or '').endswith('partial') and d.args:
                    d = d.args[0]
                if isinstance(d, ast.Name) and d.id in ls.nested and ls.nested[d.id] not in entries:
                    entries.append(ls.nested[d.id])
                elif isinstance(d, ast.Attribute) and isinstance(d.value, ast.Name) and d.value.id == 'self':
                    m = corpus.method(repo_cls(corpus), d.attr)
                    if m is not None and m not in entries and any(True for _ in self_calls(m.node, {'_download_snapshot_threadsafe', '_download_threadsafe', '_get_cached'})):
                        entries.append(m)
    if not entries:
        raise AnalysisError('C02.R3: no thread entry submitted by _load_snapshots')
    chain = list(entries)
    cls = repo_cls(corpus)
    seen = {f.key for f in chain}
    work = list(chain)
    while work:
        f = work.pop()
        for c in calls_in(f.node):
            d = dotted(c.func) or ''
            if d.startswith('self.'):
                m = corpus.method(cls, d[5:])
                if m is not None and m.key not in seen and d[5:].startswith(('_download_snapshot', '_decrypt_snapshot')):
                    seen.add(m.key)
                    chain.append(m)
                    work.append(m)
    return ls, entries, chain


def _is_filter_guard(test):
    return any(isinstance(c.func, ast.Attribute) and c.func.attr in ('search', 'match', 'fullmatch') for c in calls_in(test))


def _is_tag_guard(test):
    has_mac = any(isinstance(c.func, ast.Attribute) and c.func.attr == 'mac' for c in calls_in(test))
    has_ne = any(isinstance(n, ast.Compare) and any(isinstance(o, ast.NotEq) for o in n.ops) for n in ast.walk(test))
    return has_mac and has_ne


def r3_skip_whitelist(ctx):
    corpus = ctx.corpus
    ls, entries, chain = _loader_chain(corpus)
    ctx.analysed(ls, *chain)
    n_skip = 0
    from ..terms import _ends_with_return

    chain_names = {c.name for c in chain} | {'_decrypt_snapshot_body', 'deserialize'}

    def _is_body(f, v, depth=0):
        """The returned expression is a snapshot body: a call of a loader-chain function /
        the decoder, or a local assigned from one."""
        if depth > 3 or v is None:
            return False
        if isinstance(v, ast.Call):
            d = dotted(v.func) or ''
            if d.startswith('self.'):
                return d[5:] in chain_names
            # a record / tuple that carries the body next to other fields (`Loaded(path, body)`); one with None in a
            # field is the "no body" outcome
            parts = list(v.args) + [k.value for k in v.keywords]
            return isinstance(v.func, ast.Name) and any(_is_body(f, p_, depth + 1) for p_ in parts) and not any(isinstance(p_, ast.Constant) and p_.value is None for p_ in parts)
        if isinstance(v, ast.Tuple):
            return any(_is_body(f, p_, depth + 1) for p_ in v.elts) and not any(isinstance(p_, ast.Constant) and p_.value is None for p_ in v.elts)
        if isinstance(v, ast.Name):
            defs = [a.value for a in walk_local(f.node) if isinstance(a, ast.Assign) and any(isinstance(t, ast.Name) and t.id == v.id for t in a.targets)]
            return bool(defs) and all(_is_body(f, d, depth + 1) for d in defs)
        return False

    from .guards import guard_edges
    from ..cfg import cfg_of as _cfg

    for f in chain:
        fcfg = _cfg(f.node)
        skip_edges, _pass_edges, found = guard_edges(f.node)
        for r in walk_local(f.node):
            if isinstance(r, ast.Return) and not _is_body(f, r.value):
                n_skip += 1
                # the "no body" outcome is reached only through a skip edge of the user filter or of the ownership-tag test
                # (whatever the spelling / polarity of those tests), never inside an exception handler
                in_handler = any(isinstance(a, ast.ExceptHandler) for a in ancestors(r))
                nodes = fcfg.nodes_of(r, 'stmt')
                ok = bool(skip_edges) and bool(nodes) and not in_handler and all(fcfg.set_dominates(skip_edges, x) for x in nodes)
                guard = None
                cur = r
                while cur is not None and cur is not f.node:
                    par = getattr(cur, '_parent', None)
                    if isinstance(par, (ast.If, ast.ExceptHandler)):
                        guard = par
                        break
                    cur = par
                ctx.check(
                    ok,
                    'C02.R3',
                    f'{func_label(f)}|loader-skip-guard',
                    loc(f, r),
                    f'{f.qual}: "no body" outcome is guarded by the user filter or the ownership-tag mismatch',
                    f'{f.qual}: a snapshot can be dropped from loading (return None) on a path that is neither the user filter nor a foreign ownership tag'
                    + (f' (guard: {src(guard.test) if isinstance(guard, ast.If) else "except handler"})' if guard is not None else ' (unguarded)'),
                )
        if f in entries or f.name.startswith('_download_snapshot'):
            ctx.check(
                _ends_with_return(f.node.body),
                'C02.R3',
                f'{func_label(f)}|loader-returns-body',
                loc(f, f.node),
                f'{f.qual}: every normal path ends in an explicit return (a body) or raise',
                f'{f.qual}: can fall off the end and return None - the snapshot would be silently skipped',
            )
    ctx.floor('C02.R3', 'whitelisted skip paths in the snapshot loader', n_skip, 1)
    # every listed snapshot path is handed to the loader (no listing entry is dropped)
    from ..cfg import cfg_of

    lcfg = cfg_of(ls.node)
    # names under which a loader entry is handed to the executor: the entry itself or a local bound to partial(entry, ..)
    entry_names = {e.name for e in entries}
    for a_ in walk_local(ls.node):
        if isinstance(a_, ast.Assign) and len(a_.targets) == 1 and isinstance(a_.targets[0], ast.Name) and isinstance(a_.value, ast.Call) and (dotted(a_.value.func) or '').endswith('partial') and a_.value.args:
            f0 = a_.value.args[0]
            if (isinstance(f0, ast.Name) and f0.id in entry_names) or (isinstance(f0, ast.Attribute) and f0.attr in entry_names):
                entry_names.add(a_.targets[0].id)
    loops = [l for l in walk_local(ls.node) if isinstance(l, (ast.For, ast.AsyncFor)) and any(isinstance(a, ast.Attribute) and a.attr == 'list_files' for a in ast.walk(l.iter))]
    # comprehension form: {submit(loader, entry, path): path async for path in <listing>} - no filter clause allowed
    from ..cfg import deref_at as _deref_at

    comps = []
    for cm in ast.walk(ls.node):
        if isinstance(cm, (ast.DictComp, ast.ListComp, ast.SetComp)) and len(cm.generators) == 1:
            g = cm.generators[0]
            it = _deref_at(ls.node, g.iter) if isinstance(g.iter, ast.Name) else g.iter
            if any(isinstance(a, ast.Attribute) and a.attr == 'list_files' for a in ast.walk(it)):
                comps.append((cm, g))
    for cm, g in comps:
        parts = [cm.key, cm.value] if isinstance(cm, ast.DictComp) else [cm.elt]
        tname = getattr(g.target, 'id', None)
        submits = [c for p_ in parts for c in ast.walk(p_) if isinstance(c, ast.Call) and isinstance(c.func, ast.Attribute) and c.func.attr in ('run_in_executor', 'submit') and any((isinstance(a, ast.Name) and a.id in entry_names) or (isinstance(a, ast.Attribute) and a.attr in entry_names) for a in c.args) and any(isinstance(a, ast.Name) and a.id == tname for a in c.args)]
        ctx.check(
            bool(submits) and not g.ifs,
            'C02.R3',
            f'{func_label(ls)}|every-listed-snapshot-submitted',
            loc(ls, cm),
            '_load_snapshots submits a load for every path the listing returns (comprehension without a filter clause)',
            '_load_snapshots can pass over a listed snapshot without loading it (filter clause in the submitting comprehension / no submission): '
            'delete/clean then compute their keep sets without that snapshot and remove its chunks',
        )
    ctx.floor('C02.R3', 'loop over the snapshot listing', len(loops) + len(comps))
    for l in loops:
        subs = [enclosing_stmt(c) for c in calls_in(l) if isinstance(c.func, ast.Attribute) and c.func.attr in ('run_in_executor', 'submit') and any((isinstance(a, ast.Name) and a.id in entry_names) or (isinstance(a, ast.Attribute) and a.attr in entry_names) for a in c.args) and any(isinstance(a, ast.Name) and a.id == getattr(l.target, 'id', None) for a in c.args)]
        sub_ok = [x for st in subs for x in lcfg.nodes_of(st, 'ok')]
        heads = lcfg.nodes_of(l, 'loop')
        bad = None
        for t in lcfg.nodes_of(l, 'true'):
            bad = bad or lcfg.path(t, heads, avoid=sub_ok, kinds=('normal',))
        exits = [n for n in walk_local(l) if isinstance(n, (ast.Break, ast.Return))]
        ctx.check(
            bool(subs) and bad is None and not exits,
            'C02.R3',
            f'{func_label(ls)}|every-listed-snapshot-submitted',
            loc(ls, l),
            '_load_snapshots submits a load for every path the listing returns (no iteration skips the submission, no early exit)',
            '_load_snapshots can pass over a listed snapshot without loading it (an iteration path that does not submit the loader, or an early exit): '
            'delete/clean then compute their keep sets without that snapshot and remove its chunks',
        )
    # the consumer drops only None
    drops = []
    for n in walk_local(ls.node):
        if isinstance(n, ast.If) and any(isinstance(s, ast.Continue) for s in n.body):
            drops.append(n)
    for d in drops:
        t = d.test
        ok = isinstance(t, ast.Compare) and len(t.ops) == 1 and isinstance(t.ops[0], ast.Is) and isinstance(t.comparators[0], ast.Constant) and t.comparators[0].value is None
        ctx.check(
            ok,
            'C02.R3',
            f'{func_label(ls)}|consumer-drops-only-none',
            loc(ls, d),
            '_load_snapshots drops a loaded result only when it `is None`',
            f'_load_snapshots drops loaded snapshots on `{src(t)}`',
        )
    shared.local_listing_errors_propagate(ctx, 'C02.R3')
    shared.no_swallowed_backend_errors(ctx, 'C02.R3', scope_pred=lambda f: any(f is c or f.parent is c for c in [ls] + chain) or f is ls)


def r4_subtraction_order(ctx, roles: DeleteRoles, sub):
    if sub is None:
        return
    fn, cfg = roles.fn, roles.cfg
    sst, D, K = sub
    site = loc(fn, sst)
    after = [n for n in cfg.nodes_of(roles.loop, 'join')]
    in_loop = is_within(sst, roles.loop)
    ok1 = (not in_loop) and all(cfg.set_dominates(after, n) for n in cfg.nodes_of(sst, 'stmt'))
    ctx.check(
        ok1,
        'C02.R4',
        f'{func_label(fn)}|subtraction-after-load-loop',
        site,
        f'the keep set `{K}` is subtracted from `{D}` only after the load loop has finished',
        f'the subtraction `{src(sst)}` is not dominated by the end of the load loop: snapshots loaded later no longer protect their chunks',
    )
    s_ok = cfg.nodes_of(sst, 'ok') or cfg.nodes_of(sst, 'stmt')
    joins = roles.joins.get('chunk', [])
    ctx.floor('C02.R4', 'chunk-deleting join in delete_snapshots', len(joins))
    for st, names in joins:
        good = all(cfg.set_dominates(s_ok, n) for n in cfg.nodes_of(st, ('stmt', 'with_enter')))
        uses_d = D in names or roles.chunk_delete_set_name() in names
        ctx.check(
            good and uses_d,
            'C02.R4',
            f'{func_label(fn)}|subtraction-dominates-chunk-deletion',
            loc(fn, st),
            f'chunk deletion iterates `{D}` after `{K}` has been subtracted on every path',
            f'chunk deletion at {loc(fn, st)} is reachable without the subtraction of `{K}` (or iterates another collection: {names})',
        )
    # nothing re-adds to D after the subtraction
    for n in walk_local(fn.node):
        if isinstance(n, ast.Call) and isinstance(n.func, ast.Attribute) and n.func.attr in ('update', 'add') and isinstance(n.func.value, ast.Name) and n.func.value.id == D:
            st = enclosing_stmt(n)
            late = any(cfg.path(a, cfg.nodes_of(st, 'stmt')) for a in s_ok)
            if late and not is_within(st, roles.loop):
                ctx.fail('C02.R4', f'{func_label(fn)}|no-additions-after-subtraction', loc(fn, st), f'`{D}` grows again after the keep set was subtracted')


def r5_one_naming_function(ctx):
    corpus = ctx.corpus
    cls = repo_cls(corpus)
    CHUNK = const_of(corpus, cls, 'CHUNK_PREFIX')
    builder = corpus.func('repository', 'Repository.get_chunk_location')
    lo, hi = builder.node.lineno, builder.node.end_lineno
    n = 0
    for cmd in ('snapshot', 'restore', 'delete_snapshots', 'clean'):
        fn = corpus.func('repository', f'Repository.{cmd}')
        for enc in (True, False):
            ev = evaluate(corpus, fn, modes={'encrypted': enc}, depth=7, kwargs={'confirm': ('const', False)} if cmd == 'delete_snapshots' else None)
            ctx.count('terms_built', ev.terms_built)
            for m, e in backend_events(ev, {'exists', 'upload', 'upload_stream', 'download', 'download_stream', 'delete'}):
                if not e.args:
                    continue
                t = e.args[0]
                if not term_has_const(t, CHUNK):
                    continue
                from ..terms import alts
                from .common import is_list_files_elem
                if all(a[0] == 'elem' and is_list_files_elem(a, CHUNK) for a in alts(t)):
                    continue  # an element of the chunk-prefix listing, not a constructed location
                n += 1
                joins = find(t, lambda x: x[0] == 'call' and any(a == ('const', CHUNK) for a in x[2]))
                foreign = [j for j in joins if not (j[4] and j[4][0] == builder.module.rel and lo <= j[4][1] <= hi)]
                fstr = find(t, lambda x: x[0] in ('fstr', 'bin') and any(isinstance(p, tuple) and p == ('const', CHUNK) for p in (x[1] if x[0] == 'fstr' else x[2:])))
                st = own_stmt_of_chain(e, fn)
                ctx.check(
                    not foreign and not fstr and bool(joins),
                    'C02.R5',
                    f'{func_label(fn)}|chunk-location-from-the-one-builder:{m}',
                    loc(fn, st) if st is not None else e.loc,
                    f'{cmd} [{"encrypted" if enc else "plain"}]: chunk location for backend.{m} is built by get_chunk_location',
                    f'{cmd}: a chunk location reaching backend.{m} is built outside get_chunk_location: {show(t, limit=160)}',
                )
    ctx.floor('C02.R5', 'chunk-location sinks', n, 6)
    # referenced set in clean is the image of _chunk_digest_to_location
    fn = corpus.func('repository', 'Repository.clean')
    for n_ in walk_local(fn.node):
        if isinstance(n_, ast.Compare) and any(isinstance(o, (ast.In, ast.NotIn)) for o in n_.ops):
            pass


def r6_table(ctx):
    corpus = ctx.corpus
    snap = corpus.func('repository', 'Repository.snapshot')
    table = None
    for n in walk_local(snap.node):
        if isinstance(n, ast.Dict):
            for k, v in zip(n.keys, n.values):
                if isinstance(k, ast.Constant) and k.value == 'chunks':
                    v = deref_at(snap.node, v) if isinstance(v, ast.Name) else v  # the list may be kept in a local first
                    names = [x.id for x in ast.walk(v) if isinstance(x, ast.Name) and x.id not in ('list', 'tuple', 'sorted')]
                    if names:
                        table = names[0]
    if table is None:
        raise AnalysisError("C02.R6: snapshot body literal with key 'chunks' not found")
    muts, inserts = [], []
    for f in [snap] + list(snap.all_nested()):
        for n in walk_local(f.node):
            if isinstance(n, ast.Assign):
                for t in n.targets:
                    if isinstance(t, ast.Subscript) and isinstance(t.value, ast.Name) and t.value.id == table:
                        v = n.value
                        good = isinstance(v, ast.Call) and dotted(v.func) == 'len' and len(v.args) == 1 and isinstance(v.args[0], ast.Name) and v.args[0].id == table
                        inserts.append((f, n, good))
                    if isinstance(t, ast.Name) and t.id == table and f is not snap:
                        muts.append((f, n, 'reassigned'))
            elif isinstance(n, ast.Delete):
                for t in n.targets:
                    if isinstance(t, ast.Subscript) and isinstance(t.value, ast.Name) and t.value.id == table:
                        muts.append((f, n, 'del'))
            elif isinstance(n, ast.Call) and isinstance(n.func, ast.Attribute) and isinstance(n.func.value, ast.Name) and n.func.value.id == table:
                if n.func.attr in ('pop', 'popitem', 'clear', 'update', 'setdefault', '__delitem__'):
                    muts.append((f, n, n.func.attr))
    ctx.floor('C02.R6', 'chunk-table insertion', len(inserts))
    for f, n, good in inserts:
        ctx.check(
            good,
            'C02.R6',
            f'{func_label(f)}|table-insert-is-append',
            loc(f, n),
            f'chunk table `{table}` grows by `{table}[digest] = len({table})` only',
            f'chunk table insertion `{src(n)}` does not assign the next free index',
        )
    ctx.check(
        not muts,
        'C02.R6',
        f'{func_label(snap)}|table-never-shrinks',
        loc(snap, snap.node),
        f'chunk table `{table}` is never shrunk or reassigned while references are handed out',
        'chunk table is modified by ' + ', '.join(f'{k} at {loc(f, n)}' for f, n, k in muts[:3]),
    )
    # every uploaded/ reused chunk's index comes from the table
    ev = evaluate(corpus, snap, modes={'encrypted': True}, depth=7)
    recs = set()
    for t in walk_terms_of_events(ev):
        if t[0] == 'record' and t[1].endswith('_SnapshotChunk'):
            recs.add(t)
    ctx.floor('C02.R6', 'chunk records built by the producer', len(recs))
    for r in recs:
        idx = dict(r[2]).get('index')
        alts_ = idx[1] if idx[0] == 'alt' else [idx]
        good = all((a[0] == 'sub') or (a[0] == 'call' and a[1] == ('name', 'len')) for a in alts_)
        ctx.check(
            good,
            'C02.R6',
            f'{func_label(snap)}|chunk-index-from-table',
            loc(snap, snap.node),
            'the index stored in a chunk reference is looked up in / appended to the chunk table',
            f'chunk reference index has another origin: {show(idx, limit=120)}',
        )


def walk_terms_of_events(ev):
    seen = set()
    for e in ev.events:
        for a in list(e.args) + [v for _, v in e.kwargs]:
            for t in walk(a):
                if t not in seen:
                    seen.add(t)
                    yield t


def r7_content_addressed(ctx):
    corpus = ctx.corpus
    cls = repo_cls(corpus)
    CHUNK = const_of(corpus, cls, 'CHUNK_PREFIX')
    snap = corpus.func('repository', 'Repository.snapshot')
    n = 0
    for enc in (True, False):
        ev = evaluate(corpus, snap, modes={'encrypted': enc}, depth=7)
        for m, e in backend_events(ev, {'upload_stream', 'upload'}):
            if len(e.args) < 2 or not term_has_const(e.args[0], CHUNK):
                continue
            n += 1
            locterm, payload = e.args[0], e.args[1]
            digests = find(locterm, lambda x: x[0] == 'call' and x[1][0] == 'attr' and x[1][2] == 'digest' and len(x[2]) == 1)
            xs = {d[2][0] for d in digests}
            # the hashed data must be *carried* by the payload (through stream wrappers / the cipher), not merely occur in it
            hit = [x for x in xs if _carries(payload, x, enc)]
            st = own_stmt_of_chain(e, snap)
            ctx.check(
                bool(hit),
                'C02.R7',
                f'{func_label(snap)}|upload-location-is-hash-of-payload',
                loc(snap, st) if st is not None else e.loc,
                f'[{"encrypted" if enc else "plain"}] the chunk uploaded under a location is the data whose digest names that location',
                f'the uploaded payload {show(payload, limit=100)} does not derive from the data hashed for its location {show(locterm, limit=100)}',
            )
            if enc and hit:
                encs = hit  # _carries(.., enc=True) accepted the data only as the first argument of <cipher>.encrypt
                ctx.check(
                    bool(encs),
                    'C02.R7',
                    f'{func_label(snap)}|payload-is-encryption-of-hashed-data',
                    loc(snap, st) if st is not None else e.loc,
                    '[encrypted] the payload is cipher.encrypt(<the hashed data>, ...)',
                    'encrypted mode: the payload is not the encryption of the hashed data',
                )
    ctx.floor('C02.R7', 'chunk upload sites', n, 2)


_STREAM_WRAPPERS = ('io.BytesIO', 'BytesIO', 'memoryview', 'bytes', 'bytearray')


def _carries(t, x, enc, depth=0):
    """is the uploaded payload `t` the data `x` itself (encrypted when enc), possibly wrapped in stream / progress /
    rate-limit wrappers - on every alternative?  `len(x)`, slices or any other function of x do not count."""
    if depth > 12 or not isinstance(t, tuple) or not t:
        return False
    if t == x:
        return not enc
    k = t[0]
    if k == 'alt':
        return bool(t[1]) and all(_carries(a, x, enc, depth + 1) for a in t[1])
    if k == 'inst':
        # wrapper classes of the code base (TQDMIOReader, _RateLimitedFileWrapper): the wrapped stream is the first argument
        return bool(t[2]) and _carries(t[2][0], x, enc, depth + 1)
    if k == 'call':
        f, args = t[1], t[2]
        if f[0] == 'attr' and f[2] == 'encrypt' and args:
            return enc and args[0] == x
        if f[0] == 'name' and f[1] in _STREAM_WRAPPERS and len(args) == 1:
            return _carries(args[0], x, enc, depth + 1)
        if f[0] == 'attr' and f[2] == 'wrap' and len(args) == 1:
            return _carries(args[0], x, enc, depth + 1)
    return False


def r8_skip_upload_only_on_backend_answer(ctx, rule='C02.R8'):
    """In the upload worker the branch that marks a chunk as stored without
    uploading it is taken only on the (truthy) result of backend.exists for the
    chunk's own location, asked in this run."""
    corpus = ctx.corpus
    snap = corpus.func('repository', 'Repository.snapshot')
    workers = [f for f in snap.nested.values() if any(isinstance(n, ast.Attribute) and n.attr == 'upload_stream' for n in walk_local(f.node))]
    ctx.floor(rule, 'upload worker (nested function referencing backend.upload_stream)', len(workers))
    for w in workers:
        ctx.analysed(w)
        cfg = cfg_of(w.node)
        ups = [enclosing_stmt(n) for n in walk_local(w.node) if isinstance(n, ast.Attribute) and n.attr == 'upload_stream']
        up_ok = [x for u in ups for x in cfg.nodes_of(u, 'ok')]
        # statements that record the chunk as done: calls of a sibling nested function with the chunk
        done_calls = []
        sibs = set(snap.nested) - {w.name}
        for n in walk_local(w.node):
            if isinstance(n, ast.Call) and isinstance(n.func, ast.Name) and n.func.id in sibs:
                done_calls.append(enclosing_stmt(n))
        ctx.floor(rule, 'completion callback calls in the upload worker', len(done_calls))
        # the exists test
        exists_names = set()
        for n in walk_local(w.node):
            if isinstance(n, ast.Assign) and any(True for _ in self_calls(n.value, {'_exists', '_exists_threadsafe'})):
                v = n.value
                pure = isinstance(v, ast.Await) and isinstance(v.value, ast.Call) and (dotted(v.value.func) or '').startswith('self._exists')
                for t in n.targets:
                    if isinstance(t, ast.Name):
                        exists_names.add((t.id, pure, n))
        tests = []
        for n in walk_local(w.node):
            if isinstance(n, ast.If):
                t = n.test
                if isinstance(t, ast.Name) and any(t.id == nm and pure for nm, pure, _ in exists_names):
                    tests.append((n, True))
                elif isinstance(t, ast.UnaryOp) and isinstance(t.op, ast.Not) and isinstance(t.operand, ast.Name) and any(t.operand.id == nm and pure for nm, pure, _ in exists_names):
                    tests.append((n, False))
                elif isinstance(t, ast.Await) and isinstance(t.value, ast.Call) and (dotted(t.value.func) or '').startswith('self._exists'):
                    tests.append((n, True))
        true_nodes = [x for n, pos in tests for x in cfg.nodes_of(n, 'true' if pos else 'false')]
        for d in done_calls:
            for dn in cfg.nodes_of(d, 'stmt'):
                path = cfg.path(cfg.entry, [dn], avoid=up_ok + true_nodes)
                ctx.check(
                    path is None,
                    rule,
                    f'{func_label(w)}|stored-only-after-upload-or-backend-exists',
                    loc(w, d),
                    'a chunk is recorded as stored only after its upload completed or after backend.exists answered true for it',
                    'a chunk can be recorded as stored without an upload and without a positive answer of backend.exists for it in this run '
                    '(e.g. a remembered/stale existence answer): a snapshot may reference a chunk that is not in the repository',
                    cfg.describe_path([n for n in (path or []) if n.kind in ('stmt', 'true', 'false', 'test')][:12], w.module),
                )


def run(ctx):
    from ..report import Relabel
    from .c14 import r5_no_stale_key_state

    r5_no_stale_key_state(Relabel(ctx, 'C02.R10'))
    # an object that exists under a chunk / snapshot name holds the complete bytes that were written for it: later
    # snapshots skip the upload on the strength of that name, so a short object would damage every snapshot referencing it
    from .c03 import r4_local_atomic

    r4_local_atomic(Relabel(ctx, 'C02.R11'))
    from . import shared as _sh

    _sh.deletion_confined_to_gc_commands(ctx, 'C02.R12')
    _sh.adapter_delete_discipline(ctx, 'C02.R12')
    # the loader sees every snapshot only if every adapter's listing is complete (pagination ends on the service's own
    # end marker), and a retried upload never publishes a short object over a good one
    from .c12 import r2_rewind as _rw
    from .c13 import r2_pagination as _pg

    _pg(Relabel(ctx, 'C02.R3'))
    _rw(Relabel(ctx, 'C02.R11'), rule='C02.R11')
    # ... and those bytes are the ones whose digest names the object: the record handed to the upload workers is built in
    # the iteration that produced the chunk, from values computed for that chunk (a stale payload under a fresh name
    # would replace / pre-empt the right object for every snapshot that references the digest)
    from .c01 import r3b_chunk_record_fresh

    r3b_chunk_record_fresh(ctx, rule='C02.R11')
    roles = DeleteRoles(ctx.corpus)
    ctx.analysed(roles.fn, *roles.fn.all_nested())
    from .shared import stale_loop_variables

    _gc = [ctx.corpus.func('repository', 'Repository.clean'), roles.fn, ctx.corpus.func('repository', 'Repository._load_snapshots')]
    stale_loop_variables(ctx, 'C02.R1', _gc + [n for g in _gc for n in g.all_nested()], 'reference / keep set')
    from .shared import leftover_from_finished_loop

    leftover_from_finished_loop(ctx, 'C02.R1', _gc + [n for g in _gc for n in g.all_nested()], 'reference / keep set')
    sub = r1_keep_set(ctx, roles)
    r1_clean_all(ctx)
    r2_unfiltered(ctx)
    r3_skip_whitelist(ctx)
    r4_subtraction_order(ctx, roles, sub)
    r5_one_naming_function(ctx)
    r6_table(ctx)
    r7_content_addressed(ctx)
    r8_skip_upload_only_on_backend_answer(ctx)
    from .c03 import r2_delete_order

    r2_delete_order(ctx, rule='C02.R9')
