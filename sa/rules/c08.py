"""C08 - Garbage collection is complete and confined to the caller's own data.

Decides: deletion-target confinement (provenance), referenced / tag guards
dominate selection in clean, the tag relation checked by the readers agrees with
the one the location builders write, everything selected is deleted, backend
delete failures propagate.  Not decided: completeness over arbitrary histories;
builder/parser inverse for all strings."""
from __future__ import annotations

import ast

from ..astutil import ancestors, body_always_raises, calls_in, dotted, enclosing_stmt, is_within, src, walk_local
from ..cfg import cfg_of, deref_at
from ..loader import AnalysisError
from ..terms import Evaluator, alts, backend_method, contains, find, show, strip_sites, walk
from . import shared
from .common import (
    backend_events,
    const_of,
    evaluate,
    func_label,
    is_list_files_elem,
    loc,
    own_stmt_of_chain,
    repo_cls,
    self_calls,
    term_has_const,
)
from .gcroles import DeleteRoles

EXPLANATION = (
    'Provenance of every location that reaches backend.delete from delete_snapshots and clean (allowed origins: element of the listing of exactly the '
    'snapshot/chunk prefix constant, or the chunk-location builder applied to a chunk-table entry), guard dominance on the CFG of clean (referenced test '
    'and ownership-tag test dominate selection), term-level agreement of the ownership-tag relation between the location builders and the two readers, '
    'shape of the delete set (selected minus kept, deleted as a whole), exception discipline around deletions. Rules C08.R1-R5.'
    ' Added with the seeded-defect rounds: in clean a listed chunk stays out of the deletion only through the referenced test or the tag test, local listing error discipline, complete pagination and bounded retry of the listings, deletion confinement, Local.clean removes empty directories only.'
    ' Round 6: adapter delete discipline, local listing follows links through a delegated scan helper, Local.clean removes with rmdir only.'
)
NOT_DECIDED = 'completeness after arbitrary histories (reachable repository states); that location builder and parser are inverse for all hex strings'
TRUSTED = ['CPython ast', 'backend.list_files(prefix) returns only names starting with prefix']
ASSUMPTIONS = ['the chunk and snapshot areas contain only objects written by replicat (property text)']


def r1_confinement(ctx):
    corpus = ctx.corpus
    cls = repo_cls(corpus)
    SNAP = const_of(corpus, cls, 'SNAPSHOT_PREFIX')
    CHUNK = const_of(corpus, cls, 'CHUNK_PREFIX')
    builder = corpus.func('repository', 'Repository.get_chunk_location')
    lo, hi = builder.node.lineno, builder.node.end_lineno
    n = 0
    for cmd in ('delete_snapshots', 'clean'):
        fn = corpus.func('repository', f'Repository.{cmd}')
        ctx.analysed(fn, *fn.all_nested())
        for enc in (True, False):
            ev = evaluate(corpus, fn, modes={'encrypted': enc}, depth=7, kwargs={'confirm': ('const', False)} if cmd == 'delete_snapshots' else None)
            ctx.count('terms_built', ev.terms_built)
            for m, e in backend_events(ev, {'delete', 'upload', 'upload_stream'}):
                st = own_stmt_of_chain(e, fn)
                site = loc(fn, st) if st is not None else e.loc
                if m != 'delete':
                    ctx.fail('C08.R1', f'{func_label(fn)}|no-uploads-in-gc', site, f'{cmd} reaches backend.{m}: garbage collection must only delete')
                    continue
                n += 1
                t = e.args[0] if e.args else ('opaque', 'missing')
                bad = []
                for a in alts(t):
                    if a[0] == 'elem' and (is_list_files_elem(a, SNAP) or is_list_files_elem(a, CHUNK)):
                        continue
                    joins = find(a, lambda x: x[0] == 'call' and x[2] and x[2][0] == ('const', CHUNK) and x[4] and x[4][0] == builder.module.rel and lo <= x[4][1] <= hi)
                    if joins and a[0] == 'call' and a is joins[0] or (joins and a == joins[0]):
                        continue
                    bad.append(a)
                ctx.check(
                    not bad,
                    'C08.R1',
                    f'{func_label(fn)}|delete-target-origin',
                    site,
                    f'{cmd} [{"encrypted" if enc else "plain"}]: every deleted location is an element of the snapshot/chunk prefix listing or a chunk location built from a chunk-table entry',
                    f'{cmd}: a deleted location has another origin: {show(bad[0], limit=180) if bad else ""}',
                )
            # listing prefixes are exactly the constants
            for m, e in backend_events(ev, {'list_files'}):
                p = e.args[0] if e.args else None
                st = own_stmt_of_chain(e, fn)
                ctx.check(
                    p in (('const', SNAP), ('const', CHUNK)),
                    'C08.R1',
                    f'{func_label(fn)}|listing-prefix-is-area-constant',
                    loc(fn, st) if st is not None else e.loc,
                    f'{cmd}: listings use exactly the snapshot/chunk area prefix',
                    f'{cmd}: a listing whose results feed deletion uses prefix {show(p, limit=80) if p else "<none>"} instead of the area constant '
                    f'({SNAP!r} / {CHUNK!r}): objects outside the area (e.g. names that merely start with the same letters) become deletion candidates',
                )
    ctx.floor('C08.R1', 'delete flows', n, 3)
    # get_chunk_location's first component is the chunk prefix
    ev = Evaluator(corpus, depth=3)
    r = ev.run(builder)
    first_ok = r[0] == 'call' and r[2] and r[2][0] == ('const', CHUNK)
    ctx.check(
        first_ok,
        'C08.R1',
        f'{func_label(builder)}|builder-starts-with-chunk-prefix',
        loc(builder, builder.node),
        'get_chunk_location builds a path inside the chunk area (first component is CHUNK_PREFIX)',
        f'get_chunk_location does not start with CHUNK_PREFIX: {show(r, limit=120)}',
    )


def _clean_roles(corpus):
    fn = corpus.func('repository', 'Repository.clean')
    loop = None
    for n in walk_local(fn.node):
        if isinstance(n, (ast.For, ast.AsyncFor)):
            it = deref_at(fn.node, n.iter) if isinstance(n.iter, ast.Name) else n.iter
            if any(isinstance(a, ast.Attribute) and a.attr == 'list_files' for a in ast.walk(it)):
                loop = n
    if loop is None or not isinstance(loop.target, ast.Name):
        raise AnalysisError('clean: loop over the chunk listing not found')
    var = loop.target.id
    adds = []
    for n in walk_local(loop):
        if isinstance(n, ast.Call) and isinstance(n.func, ast.Attribute) and n.func.attr in ('add', 'append') and n.args and isinstance(n.args[0], ast.Name) and n.args[0].id == var:
            adds.append(n)
    if not adds:
        raise AnalysisError('clean: selection statement (to_delete.add(location)) not found')
    return fn, loop, var, adds


def r2_referenced_guard(ctx):
    corpus = ctx.corpus
    fn, loop, var, adds = _clean_roles(corpus)
    cfg = cfg_of(fn.node)
    ref_ifs = []
    for n in walk_local(loop):
        if isinstance(n, ast.If):
            t = n.test
            if isinstance(t, ast.Compare) and len(t.ops) == 1 and isinstance(t.ops[0], (ast.In, ast.NotIn)) and isinstance(t.left, ast.Name) and t.left.id == var and isinstance(t.comparators[0], ast.Name):
                ref_ifs.append((n, isinstance(t.ops[0], ast.In), t.comparators[0].id))
    for a in adds:
        st = enclosing_stmt(a)
        guards = [x for n, is_in, _ in ref_ifs for x in cfg.nodes_of(n, 'false' if is_in else 'true')]
        ok = bool(guards) and all(cfg.set_dominates(guards, x) for x in cfg.nodes_of(st, 'stmt'))
        ctx.check(
            ok,
            'C08.R2',
            f'{func_label(fn)}|referenced-test-dominates-selection',
            loc(fn, st),
            'clean: a listed chunk is selected for deletion only through the "not referenced" edge of the membership test',
            'clean: a listed chunk can be selected for deletion without having failed the `in referenced` test',
        )
    # the referenced set is the image of the chunk naming function over the referenced digests
    for n, is_in, rname in ref_ifs:
        defs = [s for s in walk_local(fn.node) if isinstance(s, ast.Assign) and any(isinstance(t, ast.Name) and t.id == rname for t in s.targets)]
        good = False
        for d in defs:
            if any(True for _ in self_calls(d.value, {'_chunk_digest_to_location'})) or any(
                isinstance(x, ast.Attribute) and x.attr == '_chunk_digest_to_location' for x in ast.walk(d.value)
            ):
                good = True
        ctx.check(
            good,
            'C08.R2',
            f'{func_label(fn)}|referenced-set-is-image-of-naming-function',
            loc(fn, n),
            f'clean: `{rname}` is the image of _chunk_digest_to_location over the referenced digests (the same function that named the chunks at upload)',
            f'clean: `{rname}` is not computed with _chunk_digest_to_location',
        )


def _tag_guard_terms(ev):
    out = []
    for e in ev.events:
        for st, pol, t in e.guards:
            for x in walk(t):
                if x[0] == 'cmp' and x[1] in ('NotEq', 'Eq'):
                    if contains(x, lambda y: y[0] == 'call' and y[1][0] == 'attr' and y[1][2] == 'mac'):
                        out.append((st, x))
    seen, res = set(), []
    for st, x in out:
        if (id(st), x) not in seen:
            seen.add((id(st), x))
            res.append((st, x))
    return res


def _is_fromhex(t, of=None):
    ok = t[0] == 'call' and t[1] == ('name', 'bytes.fromhex') and len(t[2]) == 1
    if ok and of is not None:
        return t[2][0] == of
    return ok


def _mac_arg(t):
    if t[0] == 'call' and t[1][0] == 'attr' and t[1][2] == 'mac' and t[2]:
        return t[2][0]
    return None


def r3_tag_relation(ctx):
    corpus = ctx.corpus
    # writers
    ev = Evaluator(corpus, modes={'encrypted': True}, depth=4)
    if corpus.has_func('repository', 'Repository._chunk_digest_to_location_parts'):
        w = corpus.func('repository', 'Repository._chunk_digest_to_location_parts')
        ctx.analysed(w)
        r = ev.run(w)
    else:
        # the helper folded into its caller: take (name, tag) from the call of get_chunk_location
        w = corpus.func('repository', 'Repository._chunk_digest_to_location')
        ctx.analysed(w)
        ev.run(w)
        r = ('opaque', 'no get_chunk_location call')
        for e in ev.events:
            if e.method == 'get_chunk_location' or (e.callee[0] == 'bound' and e.callee[2].endswith('get_chunk_location')):
                kw = dict(e.kwargs)
                if 'name' in kw and 'tag' in kw:
                    r = ('record', 'LocationParts', (('name', kw['name']), ('tag', kw['tag'])))
    ok = False
    if r[0] == 'record':
        f = dict(r[2])
        name, tag = f.get('name'), f.get('tag')
        if name and tag and name[0] == 'call' and name[1][0] == 'attr' and name[1][2] == 'hex' and tag[0] == 'call' and tag[1][2] == 'hex':
            n_inner, t_inner = name[1][1], tag[1][1]
            ok = _mac_arg(t_inner) == n_inner and _mac_arg(n_inner) == ('param', 'digest')
    ctx.check(
        ok,
        'C08.R3',
        f'{func_label(w)}|writer-chunk-tag-relation',
        loc(w, w.node),
        'chunk writer [encrypted]: name = hex(mac(digest)), tag = hex(mac(<name bytes>))',
        f'chunk writer relation changed: {show(r, limit=200)}',
    )
    if corpus.has_func('repository', 'Repository._snapshot_digest_to_location_parts'):
        w2 = corpus.func('repository', 'Repository._snapshot_digest_to_location_parts')
        ctx.analysed(w2)
        ev2 = Evaluator(corpus, modes={'encrypted': True}, depth=4)
        r2 = ev2.run(w2)
        ok2 = False
        if r2[0] == 'record':
            f = dict(r2[2])
            name, tag = f.get('name'), f.get('tag')
            if name and tag and name[0] == 'call' and name[1][0] == 'attr' and name[1][2] == 'hex' and tag[0] == 'call' and tag[1][0] == 'attr' and tag[1][2] == 'hex':
                ok2 = name[1][1] == ('param', 'digest') and _mac_arg(tag[1][1]) == ('param', 'digest')
    else:
        # the helper is written out in snapshot(): judge the (name, tag) pair that reaches get_snapshot_location
        w2 = corpus.func('repository', 'Repository.snapshot')
        ctx.analysed(w2)
        ev2 = evaluate(corpus, w2, modes={'encrypted': True}, depth=5)
        sites = [e for e in ev2.events if e.callee[0] == 'bound' and e.callee[-1].endswith('.get_snapshot_location')]
        ctx.floor('C08.R3', 'snapshot location construction in snapshot()', len(sites))
        ok2, r2 = True, ('const', None)
        for e in sites:
            kws = dict(e.kwargs)
            name, tag = strip_sites(kws.get('name')) if kws.get('name') else None, strip_sites(kws.get('tag')) if kws.get('tag') else None
            r2 = ('tuple', (name, tag))
            good = bool(name and tag and name[0] == 'call' and name[1][0] == 'attr' and name[1][2] == 'hex' and tag[0] == 'call' and tag[1][0] == 'attr' and tag[1][2] == 'hex')
            good = good and _mac_arg(tag[1][1]) is not None and _mac_arg(tag[1][1]) == name[1][1] and contains(name[1][1], lambda y: y[0] == 'call' and y[1][0] == 'attr' and y[1][2] in ('hash_digest', 'digest'))
            ok2 = ok2 and good
    ctx.check(
        ok2,
        'C08.R3',
        f'{func_label(w2)}|writer-snapshot-tag-relation',
        loc(w2, w2.node),
        'snapshot writer [encrypted]: name = hex(digest), tag = hex(mac(digest))',
        f'snapshot writer relation changed: {show(r2, limit=200)}',
    )
    # reader in clean: mac(fromhex(name)) vs fromhex(tag), (name, tag) = parse_chunk_location(location)
    fn = corpus.func('repository', 'Repository.clean')
    evc = evaluate(corpus, fn, modes={'encrypted': True}, depth=7)
    guards = _tag_guard_terms(evc)
    guards = [(st, x) for st, x in guards if st is not None and is_within(st, fn.node)]
    ctx.floor('C08.R3', 'ownership-tag comparison in clean', len(guards))
    for st, x in guards:
        l, r_ = x[2], x[3]
        if _mac_arg(r_) is not None:
            l, r_ = r_, l
        a = _mac_arg(l)
        good = a is not None and _is_fromhex(a) and _is_fromhex(r_)
        if good:
            nm, tg = a[2][0], r_[2][0]
            # fields of the parsed location of the listed element
            good = contains(nm, lambda y: y[0] == 'elem') and contains(tg, lambda y: y[0] == 'elem') and nm != tg
            good = good and _field_of(nm) == 'name' and _field_of(tg) == 'tag'
        ctx.check(
            good,
            'C08.R3',
            f'{func_label(fn)}|clean-tag-check-agrees-with-writer',
            loc(fn, st),
            'clean [encrypted]: compares mac(bytes.fromhex(name)) with bytes.fromhex(tag) of the parsed location - the relation the writer establishes',
            f'clean: the ownership-tag comparison {show(x, limit=200)} is not mac(fromhex(name)) vs fromhex(tag) of the listed location: own chunks are not recognised (never collected) or foreign ones are',
        )
    # reader in the loader
    ls = corpus.func('repository', 'Repository._load_snapshots')
    evl = evaluate(corpus, ls, modes={'encrypted': True}, depth=6)
    guards = [(st, x) for st, x in _tag_guard_terms(evl) if st is not None and is_within(st, ls.node)]
    ctx.floor('C08.R3', 'ownership-tag comparison in the snapshot loader', len(guards))
    for st, x in guards:
        l, r_ = x[2], x[3]
        if _mac_arg(r_) is not None:
            l, r_ = r_, l
        a = _mac_arg(l)
        good = a is not None and _is_fromhex(a) and _is_fromhex(r_) and _field_of(a[2][0]) == 'name' and _field_of(r_[2][0]) == 'tag'
        ctx.check(
            good,
            'C08.R3',
            f'{func_label(ls)}|loader-tag-check-agrees-with-writer',
            loc(ls, st),
            'snapshot loader [encrypted]: compares mac(bytes.fromhex(name)) with bytes.fromhex(tag) of the parsed location',
            f'snapshot loader: the ownership-tag comparison {show(x, limit=200)} does not match the writer relation',
        )


def _field_of(t):
    """Which LocationParts field does term t denote? ('name'/'tag'/None)"""
    # parse_* returns LocationParts(name=..., tag=...): after inlining, name is the
    # rpartition('-')[2] part, tag is built from rsplit parts
    if contains(t, lambda y: y[0] == 'call' and y[1][0] == 'attr' and y[1][2] == 'rsplit'):
        return 'tag'
    if contains(t, lambda y: y[0] == 'call' and y[1][0] == 'attr' and y[1][2] == 'rpartition'):
        return 'name'
    return None


def r4_everything_deleted(ctx):
    corpus = ctx.corpus
    roles = DeleteRoles(corpus)
    fn = roles.fn
    sub = roles.subtraction()
    if sub is None:
        ctx.fail(
            'C08.R4',
            f'{func_label(fn)}|delete-set-is-selected-minus-kept',
            loc(fn, fn.node),
            'delete_snapshots: the set of chunks to delete is not computed as (chunks of the deleted snapshots) minus (chunks of the remaining snapshots); '
            'chunks referenced only by snapshots deleted in the same call may be left behind',
        )
    else:
        sst, D, K = sub
        paths, _, _ = roles.loop_paths()
        keep_ids = {id(s) for s in roles.chunks_updates(K)}
        sel_ids = {id(s) for s in roles.chunks_updates(D)}
        both = 0
        for p in paths:
            ids = {id(n.ast) for n in p if n.ast is not None}
            if ids & keep_ids and ids & sel_ids:
                both += 1
        ctx.check(
            both == 0 and bool(sel_ids),
            'C08.R4',
            f'{func_label(fn)}|selected-snapshots-do-not-feed-keep-set',
            loc(fn, roles.loop),
            f'delete_snapshots: a snapshot selected for deletion never adds its chunks to the keep set `{K}` (its exclusive chunks are collected)',
            f'delete_snapshots: a selected snapshot also feeds the keep set `{K}`: its chunks would never be deleted',
        )
    # iterables of the deleting joins are whole collections
    for kind, joins in roles.joins.items():
        for st, names in joins:
            sliced = [n for n in ast.walk(st) if isinstance(n, ast.Subscript) and isinstance(n.slice, ast.Slice)]
            filt = [n for n in ast.walk(st) if isinstance(n, (ast.GeneratorExp, ast.ListComp, ast.SetComp)) and any(g.ifs for g in n.generators)]
            isl = [c for c in calls_in(st) if (dotted(c.func) or '').endswith(('islice', 'filter', 'sample'))]
            ctx.check(
                not sliced and not filt and not isl,
                'C08.R4',
                f'{func_label(fn)}|whole-set-deleted:{kind}',
                loc(fn, st),
                f'delete_snapshots: the {kind} deletions iterate the whole selected collection',
                f'delete_snapshots: the {kind} deletions iterate a slice / filtered part of the selection',
            )
    cfn, loop, var, adds = _clean_roles(corpus)
    setname = adds[0].func.value.id if isinstance(adds[0].func.value, ast.Name) else None
    joins = [enclosing_stmt(c) for c in calls_in(cfn.node) if (dotted(c.func) or '') in ('asyncio.gather', 'gather')]
    ctx.floor('C08.R4', 'deleting join in clean', len(joins))
    for st in joins:
        names = {n.id for n in ast.walk(st) if isinstance(n, ast.Name)}
        sliced = [n for n in ast.walk(st) if isinstance(n, ast.Subscript) and isinstance(n.slice, ast.Slice)]
        filt = [n for n in ast.walk(st) if isinstance(n, (ast.GeneratorExp, ast.ListComp, ast.SetComp)) and any(g.ifs for g in n.generators)]
        isl = [c for c in calls_in(st) if (dotted(c.func) or '').endswith(('islice', 'filter', 'sample'))]
        ctx.check(
            setname in names and not sliced and not filt and not isl,
            'C08.R4',
            f'{func_label(cfn)}|whole-set-deleted',
            loc(cfn, st),
            f'clean: deletes the whole `{setname}`',
            f'clean: the deleting join does not iterate the whole `{setname}` (slice / filter / other collection)',
        )
    # completeness of the selection: a listed chunk escapes deletion only because it is referenced or (encrypted repository)
    # because its ownership tag does not verify.  Any other way around `to_delete.add(..)` leaves the caller's orphans behind.
    from .guards import guard_edges

    ccfg = cfg_of(cfn.node)
    add_nodes = [x for a in adds for x in ccfg.nodes_of(enclosing_stmt(a), 'stmt')]
    allowed = []
    for i in walk_local(loop):
        if isinstance(i, ast.If):
            t, neg = i.test, False
            while isinstance(t, ast.UnaryOp) and isinstance(t.op, ast.Not):
                t, neg = t.operand, not neg
            if isinstance(t, ast.Compare) and len(t.ops) == 1 and isinstance(t.ops[0], (ast.In, ast.NotIn)) and isinstance(t.left, ast.Name) and t.left.id == var:
                referenced_edge = 'true' if isinstance(t.ops[0], ast.In) != neg else 'false'
                allowed += ccfg.nodes_of(i, referenced_edge)
    tag_skip, _tag_pass, tag_found = guard_edges(cfn.node, kinds=('tag',), within=loop)
    allowed += tag_skip
    heads = ccfg.nodes_of(loop, 'loop')
    escape = None
    for t in ccfg.nodes_of(loop, 'true'):
        escape = escape or ccfg.path(t, heads, avoid=add_nodes + allowed, kinds=('normal',))
    ctx.check(
        escape is None and all(c_['exact'] for _n, c_ in tag_found),
        'C08.R4',
        f'{func_label(cfn)}|unselected-only-if-referenced-or-foreign',
        loc(cfn, loop),
        'clean: a listed chunk is left out of the deletion only when it is referenced or its ownership tag does not verify',
        'clean: a listed chunk can be left out of the deletion for another reason than "referenced" / "foreign tag" (an extra condition on the way to the selection): '
        "the caller's own unreferenced chunks survive clean - path " + ' -> '.join(f'{n.kind}@{n.lineno}' for n in (escape or []) if n.lineno)[:200],
    )
    # `setname` is not shrunk between selection and deletion
    for n in walk_local(cfn.node):
        if isinstance(n, ast.Call) and isinstance(n.func, ast.Attribute) and isinstance(n.func.value, ast.Name) and n.func.value.id == setname and n.func.attr in ('pop', 'discard', 'remove', 'clear', 'difference_update', 'intersection_update'):
            ctx.fail('C08.R4', f'{func_label(cfn)}|selection-not-shrunk', loc(cfn, n), f'clean: `{setname}` is shrunk ({n.func.attr}) before deletion')
    # early returns after the listing loop: only the empty-set return
    cfg = cfg_of(cfn.node)
    for r in walk_local(cfn.node):
        if isinstance(r, ast.Return) and not is_within(r, loop):
            par = getattr(r, '_parent', None)
            ok = isinstance(par, ast.If) and isinstance(par.test, ast.UnaryOp) and isinstance(par.test.op, ast.Not) and isinstance(par.test.operand, ast.Name) and par.test.operand.id == setname
            ctx.check(
                ok,
                'C08.R4',
                f'{func_label(cfn)}|no-early-return-before-deletion',
                loc(cfn, r),
                'clean: the only early return is the "nothing to delete" return',
                f'clean: returns early at {loc(cfn, r)} although chunks may have been selected',
            )


def r4b_listing_examined_completely(ctx):
    """the listing loops of clean and delete_snapshots run to exhaustion: an early `break` / `return` inside the loop
    leaves every object listed later unexamined (orphans survive, keep sets are incomplete)"""
    corpus = ctx.corpus
    fn, loop, var, adds = _clean_roles(corpus)
    roles = DeleteRoles(corpus)
    for f, l, what in ((fn, loop, 'clean: chunk listing'), (roles.fn, roles.loop, 'delete_snapshots: snapshot loading')):
        exits = [n for n in walk_local(l) if isinstance(n, (ast.Break, ast.Return)) and not any(isinstance(a, (ast.For, ast.AsyncFor, ast.While)) and a is not l and any(x is a for x in ast.walk(l)) for a in ancestors(n))]
        ctx.check(
            not exits,
            'C08.R4',
            f'{func_label(f)}|listing-loop-runs-to-exhaustion',
            loc(f, exits[0]) if exits else loc(f, l),
            f'{what}: the loop has no early exit - every listed object is examined',
            f'{what}: the loop can stop early (`{src(enclosing_stmt(exits[0]), 50) if exits else ""}`): objects listed after that point are never examined - unreferenced chunks stay behind / the keep set is incomplete',
        )


def r5_errors_propagate(ctx):
    shared.local_listing_errors_propagate(ctx, 'C08.R5')
    # ... and the listing reaches every object exists() / download() reach (linked shard directories included): what the
    # listing omits, clean takes for unreferenced or never considers
    from ..report import Relabel as _RL8
    from .c13 import r3b_local_prefix_scan

    r3b_local_prefix_scan(_RL8(ctx, 'C08.R5'))
    shared.deletion_confined_to_gc_commands(ctx, 'C08.R1')
    shared.adapter_delete_discipline(ctx, 'C08.R1')
    # "exactly those referenced by the remaining snapshots" presupposes listings that report every object once and to the end
    from ..report import Relabel as _RL8
    from .c12 import r1_bounded_retry as _br
    from .c13 import r2_pagination as _pg

    _pg(_RL8(ctx, 'C08.R4'))
    _br(_RL8(ctx, 'C08.R5'))
    from .c03 import r7_local_clean as _lc

    # the adapter's own clean-up removes empty directories only - never objects (of any area)
    _lc(_RL8(ctx, 'C08.R6'))
    shared.no_swallowed_backend_errors(ctx, 'C08.R5')
    shared.gathers_propagate(ctx, 'C08.R5')


def run(ctx):
    from .shared import zip_alignment

    zip_alignment(ctx, 'C08.R3', ctx.corpus.func('repository', 'Repository.clean'), 'clean')
    from ..report import Relabel
    from .c13 import r3_prefix
    from .c14 import r5_no_stale_key_state

    r5_no_stale_key_state(Relabel(ctx, 'C08.R6'))
    from .c13 import r4_idempotent_delete

    # "deleted" means gone for every later listing / existence test on every backend
    r4_idempotent_delete(Relabel(ctx, 'C08.R7'))
    r3_prefix(Relabel(ctx, 'C08.R1'))
    r1_confinement(ctx)
    r2_referenced_guard(ctx)
    r3_tag_relation(ctx)
    r4_everything_deleted(ctx)
    r4b_listing_examined_completely(ctx)
    from .shared import stale_loop_variables

    _gc = [ctx.corpus.func('repository', 'Repository.clean'), DeleteRoles(ctx.corpus).fn]
    stale_loop_variables(ctx, 'C08.R2', _gc + [n for g in _gc for n in g.all_nested()], 'reference / keep set')
    from .shared import leftover_from_finished_loop

    leftover_from_finished_loop(ctx, 'C08.R2', _gc + [n for g in _gc for n in g.all_nested()], 'reference / keep set')
    r5_errors_propagate(ctx)
