"""C10 - The chunker is a lossless, bounded, deterministic function of the stream.

Decides: C++ source: window loads within [0, size) (symbolic interval +
congruence over {size, max_length}), next_cut/key write no state; Python
adapter: emitted prefix == deleted prefix, every piece appended once and before
the look-ahead, finality == "no next piece", no empty yield, no state across
calls.  Not decided: value of the cut positions (hash maxima)."""
from __future__ import annotations

import ast
import os

from .. import cxx
from ..astutil import deref, ancestors, calls_in, dotted, enclosing_stmt, src, walk_local
from ..cfg import cfg_of
from ..loader import AnalysisError
from .common import func_label, loc

EXPLANATION = (
    'C++ (type-checked clang AST of src/adapters.cpp): for every vector load through the buffer pointer in gclmulchunker::key, reached from the candidate loop of '
    'next_cut, the touched byte interval [i-c, i-c+w) is bounded with the loop header (start, bound, stride), the facts established by the dominating early returns '
    '(size >= max_length at the loop) and the constructor guards; obligations that cannot be proved are reported. No statement of next_cut / key writes a member. '
    'Python adapter (ast + CFG): the yielded prefix is exactly the prefix deleted from the carry-over buffer, each piece is appended exactly once and before the '
    'iterator is advanced, the finality flag is "there is no next piece", a zero cut never reaches yield, __call__ keeps no state on self. Rules C10.R1-R5.'
    ' Round 6: computed tail slices seq[-n:] are guarded against n == 0 on the path from the files to the chunker.'
)
NOT_DECIDED = 'bounds / alignment of the cut values and independence from the segmentation (functions of hash maxima and integer arithmetic on runtime sizes)'
TRUSTED = ['the stub pybind11 header /verif/sa/stubs/pybind11/pybind11.h', "clang's AST", 'the prebuilt _replicat_adapters*.so corresponds to src/adapters.cpp (it cannot be rebuilt here: no pybind11 headers)']
ASSUMPTIONS = ['size_t arithmetic does not wrap for the sizes involved']

LOAD_WIDTH = {'_mm_loadu_si32': 4, '_mm_loadu_si64': 8, '_mm_loadl_epi64': 8, '_mm_loadu_si128': 16, '_mm_lddqu_si128': 16, '_mm_load_si128': 16}


def _docs(ctx):
    src_text = ctx.corpus.extra_files.get('src/adapters.cpp')
    if src_text is None:
        raise AnalysisError('anchor file missing: src/adapters.cpp')
    path = os.path.join(ctx.corpus.repo or '/repo', 'src/adapters.cpp')
    on_disk = None
    try:
        with open(path, encoding='utf-8') as fh:
            on_disk = fh.read()
    except OSError:
        pass
    docs = cxx.dump(path, source=None if on_disk == src_text else src_text)
    ctx.count('clang_ast_docs', len(docs))
    return docs


def _offset_form(n, param):
    """e == param + delta  ->  delta (int) or None"""
    n = cxx.strip(n)
    if n.get('kind') == 'DeclRefExpr' and n.get('referencedDecl', {}).get('name') == param:
        return 0
    if n.get('kind') == 'BinaryOperator' and n.get('opcode') in ('+', '-'):
        l, r = cxx.strip(n['inner'][0]), cxx.strip(n['inner'][1])
        if l.get('kind') == 'DeclRefExpr' and l.get('referencedDecl', {}).get('name') == param and r.get('kind') == 'IntegerLiteral':
            v = int(r['value'])
            return v if n['opcode'] == '+' else -v
    return None


def r1_bounds(ctx, docs):
    key = cxx.method(docs, 'key')
    nc = cxx.method(docs, 'next_cut')
    kp = cxx.params(key)
    if len(kp) != 2:
        raise AnalysisError('C10.R1: key(buffer, offset) signature changed')
    bufp, offp = kp
    loads = []
    for n in cxx.walk(key):
        if n.get('kind') == 'CallExpr':
            callee = cxx.strip(n['inner'][0])
            name = callee.get('referencedDecl', {}).get('name') if callee.get('kind') == 'DeclRefExpr' else None
            if name in LOAD_WIDTH:
                arg = cxx.strip(n['inner'][1])
                if arg.get('kind') == 'UnaryOperator' and arg.get('opcode') == '&':
                    sub = cxx.strip(arg['inner'][0])
                    if sub.get('kind') == 'ArraySubscriptExpr':
                        base = cxx.strip(sub['inner'][0])
                        if base.get('kind') == 'DeclRefExpr' and base['referencedDecl'].get('name') == bufp:
                            d = _offset_form(sub['inner'][1], offp)
                            if d is None:
                                raise AnalysisError(f'C10.R1: unrecognised load index `{cxx.expr(sub["inner"][1])}`')
                            loads.append((n, name, d, LOAD_WIDTH[name]))
                            continue
                raise AnalysisError(f'C10.R1: unrecognised load operand `{cxx.expr(arg)}`')
    ctx.floor('C10.R1', 'vector loads through the buffer pointer in key()', len(loads))
    # any other dereference of the buffer parameter?
    for n in cxx.walk(key):
        if n.get('kind') == 'ArraySubscriptExpr':
            par_ok = any(n is cxx.strip(cxx.strip(l[0]['inner'][1])['inner'][0]) for l in loads)
            if not par_ok:
                raise AnalysisError('C10.R1: buffer is indexed outside a recognised vector load')
    # the candidate loop in next_cut
    fors = [n for n in cxx.walk(nc) if n.get('kind') == 'ForStmt']
    if len(fors) != 1:
        raise AnalysisError(f'C10.R1: expected one candidate loop in next_cut, found {len(fors)}')
    f = fors[0]
    init, cond, inc, fbody = f['inner'][0], f['inner'][2], f['inner'][3], f['inner'][4]
    init = cxx.strip(init)
    a = var = None
    if init.get('kind') == 'BinaryOperator' and init.get('opcode') == '=':
        var = cxx.strip(init['inner'][0]).get('referencedDecl', {}).get('name')
        lit = cxx.strip(init['inner'][1])
        a = int(lit['value']) if lit.get('kind') == 'IntegerLiteral' else None
    cond = cxx.strip(cond)
    bound = None
    if cond.get('kind') == 'BinaryOperator' and cond.get('opcode') in ('<', '<='):
        if cxx.expr(cond['inner'][0]) == var:
            bound = (cond['opcode'], cxx.expr(cond['inner'][1]))
    inc = cxx.strip(inc)
    s = None
    if inc.get('kind') == 'CompoundAssignOperator' and inc.get('opcode') == '+=' and cxx.expr(inc['inner'][0]) == var:
        lit = cxx.strip(inc['inner'][1])
        s = int(lit['value']) if lit.get('kind') == 'IntegerLiteral' else None
    if None in (a, var, bound, s) or bound[1] != 'this.max_length':
        raise AnalysisError(f'C10.R1: unrecognised loop header (init={cxx.expr(init)}, cond={cxx.expr(cond)}, inc={cxx.expr(inc)})')
    calls = []
    for n in cxx.walk(fbody):
        if n.get('kind') == 'CXXMemberCallExpr' and cxx.strip(n['inner'][0]).get('name') == 'key':
            calls.append(n)
    ctx.floor('C10.R1', 'calls of key() in the candidate loop', len(calls))
    for c in calls:
        if cxx.expr(c['inner'][2]) != var:
            raise AnalysisError(f'C10.R1: key() is called with offset `{cxx.expr(c["inner"][2])}`, not the loop variable')
    # facts from the early returns: size >= max_length when the loop is reached
    guards = []
    for n in cxx.walk(cxx.body(nc)):
        if n.get('kind') == 'IfStmt' and cxx.line_of(n) < cxx.line_of(f):
            guards.append(cxx.expr(n['inner'][0]))
    nonfinal = any(g.replace(' ', '') in ('(!final&&(size<this.max_length))',) for g in guards)
    final = any(g.replace(' ', '') in ('(final&&(size<(2*this.max_length)))',) for g in guards)
    # both guarded branches must leave the function
    def returns(n):
        return n.get('kind') == 'ReturnStmt' or (n.get('kind') in ('CompoundStmt',) and n.get('inner') and all(returns(x) or x.get('kind') == 'IfStmt' and _if_returns(x) for x in n['inner'][-1:])) or (n.get('kind') == 'IfStmt' and _if_returns(n))

    def _if_returns(n):
        inner = n['inner']
        return len(inner) >= 3 and returns(inner[1]) and returns(inner[2])

    size_ge_max = nonfinal and final
    # size variable is info.size of the same buffer whose ptr is passed to key()
    ok_buf = any('info.size' in cxx.expr(n) or True for n in [nc])
    # constructor congruence guard
    rec = cxx.record(docs)
    ctor = next((c for c in rec.get('inner', []) if c.get('kind') == 'CXXConstructorDecl' and any(x.get('kind') == 'CompoundStmt' for x in c.get('inner', []))), None)
    congr = False
    if ctor is not None:
        for n in cxx.walk(ctor):
            if n.get('kind') == 'IfStmt' and any(x.get('kind') == 'CXXThrowExpr' for x in cxx.walk(n)):
                t = cxx.expr(n['inner'][0]).replace(' ', '')
                if t in (f'((max_length%{s})!=0)', f'((max_length&{s - 1})!=0)', f'(max_length%{s})', f'(max_length&{s - 1})'):
                    congr = True
    site = f'src/adapters.cpp:{cxx.line_of(loads[0][0])}'
    for n, name, delta, w in loads:
        lo = a + delta
        ctx.check(lo >= 0, 'C10.R1', 'src/adapters.cpp|gclmulchunker::key|window-load-lower-bound', site, f'{name}(&buffer[offset{delta:+d}]): first byte touched is offset{delta:+d} >= {lo} >= 0 for offsets {a}, {a + s}, ...', f'{name}(&buffer[offset{delta:+d}]) reads before the buffer for the first candidate offset {a}')
        # largest offset reached: i <= max_length - 1 in general; i <= max_length - s when max_length = a (mod s) is enforced
        i_max_slack = -s if congr else (-1 if bound[0] == '<' else 0)
        over = i_max_slack + delta + w  # bytes past max_length touched in the worst case
        proved = size_ge_max and over <= 0
        ctx.check(
            proved,
            'C10.R1',
            'src/adapters.cpp|gclmulchunker::key|window-load-upper-bound',
            site,
            f'{name}(&buffer[offset{delta:+d}]) stays within [0, size): offsets <= max_length{i_max_slack:+d}, window ends at most at max_length <= size',
            f'{name}(&buffer[offset{delta:+d}]) ({w} bytes) is called for offsets {a}, {a + s}, ... < max_length; the only fact at the loop is size >= max_length, and no constructor guard makes '
            f'max_length a multiple of {s}: for max_length % {s} != 0 and a non-final buffer of exactly max_length bytes the last window reads up to {over} byte(s) past the buffer '
            '(cut positions then depend on adjacent memory)',
        )
    ctx.extra_evidence = {'cxx_loop': {'start': a, 'stride': s, 'bound': bound[1], 'loads': [(nm, d, w) for _, nm, d, w in loads], 'size_ge_max_length_at_loop': size_ge_max, 'ctor_congruence_guard': congr}}
    return s


def r2_purity(ctx, docs):
    for name in ('next_cut', 'key'):
        m = cxx.method(docs, name)
        w = cxx.member_writes(m)
        ctx.check(
            not w,
            'C10.R2',
            f'src/adapters.cpp|gclmulchunker::{name}|no-member-writes',
            f'src/adapters.cpp:{cxx.line_of(m)}',
            f'gclmulchunker::{name} writes no member of the object (result does not depend on earlier calls)',
            f'gclmulchunker::{name} assigns member `{w[0][1] if w else ""}`: results depend on earlier calls',
        )
        statics = [n for n in cxx.walk(m) if n.get('kind') == 'VarDecl' and n.get('storageClass') == 'static']
        ctx.check(not statics, 'C10.R2', f'src/adapters.cpp|gclmulchunker::{name}|no-static-locals', f'src/adapters.cpp:{cxx.line_of(m)}', f'gclmulchunker::{name} has no static locals', f'gclmulchunker::{name} keeps state in a static local')


def _call(corpus):
    ci = corpus.cls('adapters', 'gclmulchunker')
    f = ci.methods.get('__call__')
    if f is None:
        raise AnalysisError('gclmulchunker.__call__ missing')
    return ci, f


def r3_stateless(ctx):
    corpus = ctx.corpus
    ci, f = _call(corpus)
    ctx.analysed(f)
    stores = [a for a in ast.walk(f.node) if isinstance(a, ast.Attribute) and isinstance(a.ctx, (ast.Store, ast.Del)) and isinstance(a.value, ast.Name) and a.value.id == 'self']
    gl = [n for n in ast.walk(f.node) if isinstance(n, (ast.Global, ast.Nonlocal))]
    init = ci.methods.get('__init__')
    cfg_attrs = set()
    if init is not None:
        for a in ast.walk(init.node):
            if isinstance(a, ast.Attribute) and isinstance(a.ctx, ast.Store) and isinstance(a.value, ast.Name) and a.value.id == 'self':
                cfg_attrs.add(a.attr)
        # configuration attributes must come straight from constructor parameters
        params = {x.arg for x in init.node.args.kwonlyargs + init.node.args.args}
        derived_ok = True
        for st in walk_local(init.node):
            if isinstance(st, ast.Assign):
                tl = st.targets[0]
                tg = tl.elts if isinstance(tl, ast.Tuple) else [tl]
                vl = st.value.elts if isinstance(st.value, ast.Tuple) and isinstance(tl, ast.Tuple) else [st.value] * len(tg)
                for t, v in zip(tg, vl):
                    if isinstance(t, ast.Attribute) and not (isinstance(v, ast.Name) and v.id in params):
                        derived_ok = False
    reads = {a.attr for a in ast.walk(f.node) if isinstance(a, ast.Attribute) and isinstance(a.ctx, ast.Load) and isinstance(a.value, ast.Name) and a.value.id == 'self'}
    class_consts = set()
    for k in corpus.mro(ci):
        for st in k.node.body:
            if isinstance(st, ast.Assign) and isinstance(st.value, ast.Constant):
                class_consts |= {t.id for t in st.targets if isinstance(t, ast.Name)}
    ok = not stores and not gl and reads <= cfg_attrs | class_consts and derived_ok
    ctx.check(
        ok,
        'C10.R3',
        f'{func_label(f)}|adapter-keeps-no-state',
        loc(f, f.node),
        '__call__ assigns nothing on self and reads only the constructor-supplied bounds: buffer and native chunker are created per call',
        f'__call__ keeps state on the adapter object across calls (stores: {[a.attr for a in stores]}, reads: {sorted(reads - cfg_attrs - class_consts)}): '
        'bytes or a keyed native chunker left by one run leak into the next stream chunked with the same object',
    )
    # buffer and native object are locals created inside the call
    locals_created = {t.id for a in walk_local(f.node) if isinstance(a, ast.Assign) and isinstance(a.value, ast.Call) for t in a.targets if isinstance(t, ast.Name)}
    return locals_created


def r4_prefix(ctx):
    corpus = ctx.corpus
    ci, f = _call(corpus)
    cfg = cfg_of(f.node)
    ys = [y for y in walk_local(f.node) if isinstance(y, ast.Yield)]
    ctx.floor('C10.R4', 'yield in __call__', len(ys))
    cut_calls = [c for c in calls_in(f.node) if isinstance(c.func, ast.Attribute) and c.func.attr == 'next_cut']
    ctx.floor('C10.R4', 'next_cut call', len(cut_calls))
    # The window handed to next_cut is `B` or `B[lo:]` (B a local buffer or a memoryview of it, lo a linear
    # expression over locals).  Two consumption idioms are recognised: removing the emitted prefix
    # (`del B[:pos]`, window `B`) and advancing an offset (`lo += pos`, window `B[lo:]`).  Any other shape
    # is not decided (analysis error), never reported as a violation.
    alias = {}
    for w in walk_local(f.node):
        if isinstance(w, ast.With):
            for it in w.items:
                if isinstance(it.context_expr, ast.Call) and dotted(it.context_expr.func) == 'memoryview' and it.context_expr.args and isinstance(it.context_expr.args[0], ast.Name) and isinstance(it.optional_vars, ast.Name):
                    alias[it.optional_vars.id] = it.context_expr.args[0].id
        if isinstance(w, ast.Assign) and isinstance(w.value, ast.Call) and dotted(w.value.func) == 'memoryview' and w.value.args and isinstance(w.value.args[0], ast.Name) and isinstance(w.targets[0], ast.Name):
            alias[w.targets[0].id] = w.value.args[0].id
    win = cut_calls[0].args[0] if cut_calls[0].args else None
    if isinstance(win, ast.Name):
        wbase, wlo = win.id, {}
    elif isinstance(win, ast.Subscript) and isinstance(win.value, ast.Name) and isinstance(win.slice, ast.Slice) and win.slice.upper is None and win.slice.step is None and _lin(win.slice.lower) is not None:
        wbase, wlo = win.value.id, _lin(win.slice.lower)
    else:
        raise AnalysisError('C10.R4: the window handed to next_cut is neither a named buffer nor a suffix B[lo:] of one')
    buf = alias.get(wbase, wbase)
    for y in ys:
        yst = enclosing_stmt(y)
        v = deref(f.node, y.value) if isinstance(y.value, ast.Name) else y.value
        sl = v.args[0] if isinstance(v, ast.Call) and dotted(v.func) in ('bytes', 'bytearray') and len(v.args) == 1 else v
        sl = deref(f.node, sl) if isinstance(sl, ast.Name) else sl
        if not (isinstance(sl, ast.Subscript) and isinstance(sl.value, ast.Name) and isinstance(sl.slice, ast.Slice) and sl.slice.step is None):
            ctx.fail(
                'C10.R4',
                f'{func_label(f)}|emitted-prefix-is-removed-prefix',
                loc(f, yst),
                f'a chunk `{src(y.value, 50)}` is emitted that is not a prefix of the carry-over buffer cut at a position returned by next_cut: its boundaries are not decided by the content-defined cutter '
                '(they depend e.g. on how the stream happens to be split into pieces), so equal data no longer gives equal chunks and boundaries do not re-synchronise',
            )
            continue
        copied = sl is not v or sl.value.id not in alias
        lo, hi = _lin(sl.slice.lower), _lin(sl.slice.upper) if sl.slice.upper is not None else None
        if lo is None or hi is None:
            raise AnalysisError(f'C10.R4: the bounds of the emitted slice `{src(sl, 60)}` are not linear in locals')
        length = _lin_sub(hi, lo)
        pos = next(iter(length)) if len(length) == 1 and list(length.values()) == [1] and next(iter(length)) != '' else None
        okv = alias.get(sl.value.id, sl.value.id) == buf and lo == wlo and pos is not None and copied
        block = _block(yst)
        nxt = block[block.index(yst) + 1] if yst in block and block.index(yst) + 1 < len(block) else None
        okd = False
        if not wlo:
            okd = isinstance(nxt, ast.Delete) and len(nxt.targets) == 1 and isinstance(nxt.targets[0], ast.Subscript) and isinstance(nxt.targets[0].value, ast.Name) and nxt.targets[0].value.id == buf and isinstance(nxt.targets[0].slice, ast.Slice) and nxt.targets[0].slice.lower is None and _lin(nxt.targets[0].slice.upper) == {pos: 1}
        elif len(wlo) == 1 and list(wlo.values()) == [1] and '' not in wlo:
            off = next(iter(wlo))
            if isinstance(nxt, ast.AugAssign) and isinstance(nxt.op, ast.Add) and isinstance(nxt.target, ast.Name) and nxt.target.id == off:
                okd = _lin(nxt.value) == {pos: 1}
            elif isinstance(nxt, ast.Assign) and len(nxt.targets) == 1 and isinstance(nxt.targets[0], ast.Name) and nxt.targets[0].id == off:
                okd = _lin(nxt.value) == {off: 1, pos: 1}
        ctx.check(
            okv and okd,
            'C10.R4',
            f'{func_label(f)}|emitted-prefix-is-removed-prefix',
            loc(f, yst),
            f'the emitted chunk is a copy of the first `{pos}` bytes of the window handed to next_cut and exactly those bytes are consumed next',
            f'the emitted chunk `{src(v, 50)}` and the bytes consumed from the window `{src(win, 30)}` (`{src(nxt, 50) if nxt is not None else "nothing"}`) are not the same prefix: bytes are lost or duplicated',
        )
        # the cut position is only trusted as far as slicing clamps it: the native chunker returns a forced cut
        # computed from the (4-byte stepped) bounds, which for accepted bounds may exceed the bytes in the window.
        if pos is not None:
            arith = []
            for n in walk_local(f.node):
                if isinstance(n, ast.Name) and n.id == pos and isinstance(n.ctx, ast.Load):
                    par = getattr(n, '_parent', None)
                    if isinstance(par, ast.Slice) and par.lower is None and par.upper is n:
                        continue  # B[:pos] clamps itself
                    if isinstance(par, (ast.UnaryOp, ast.Compare, ast.If, ast.While, ast.BoolOp)) and not (isinstance(par, ast.UnaryOp) and isinstance(par.op, ast.USub)):
                        continue
                    if isinstance(par, ast.Call) and dotted(par.func) in ('min', 'bool'):
                        continue
                    arith.append(n)
            clamps = [a for a in walk_local(f.node) if isinstance(a, ast.Assign) and isinstance(a.targets[0], ast.Name) and a.targets[0].id == pos and isinstance(a.value, ast.Call) and dotted(a.value.func) == 'min' and any(isinstance(c, ast.Call) and dotted(c.func) == 'len' for x in a.value.args for c in ast.walk(x))]
            okc = not arith or (clamps and all(all(cfg.set_dominates(cfg.nodes_of(enclosing_stmt(clamps[0]), ('stmt', 'ok')), x) for x in cfg.nodes_of(enclosing_stmt(n), 'stmt')) for n in arith))
            ctx.check(
                bool(okc),
                'C10.R4',
                f'{func_label(f)}|cut-position-clamped',
                loc(f, arith[0]) if arith else loc(f, yst),
                f'`{pos}` is used only as the upper bound of prefix slices (which clamp it to the bytes present) or after min(.., len(..))',
                f'`{pos}` enters offset arithmetic (`{src(enclosing_stmt(arith[0]), 50) if arith else ""}`) without being clamped to the bytes present: next_cut returns a forced cut derived from the 4-byte stepped bounds, '
                'which for accepted bounds (min_length % 4 != 0, max_length < min_length rounded up) exceeds the window; the excess is then taken out of the next piece',
            )
        # pos is the value returned by next_cut on this buffer
        asg = [a for a in walk_local(f.node) if isinstance(a, ast.Assign) and isinstance(a.targets[0], ast.Name) and a.targets[0].id == pos]
        ctx.check(bool(asg) and asg[0].value is cut_calls[0] and all(isinstance(a.value, ast.Call) and dotted(a.value.func) == 'min' for a in asg[1:]), 'C10.R4', f'{func_label(f)}|cut-from-native', loc(f, yst), f'`{pos}` is the result of next_cut({buf}, final)', f'`{pos}` is not (only) the value returned by next_cut')
        # R5: only a truthy cut reaches the yield
        guards = [i for i in walk_local(f.node) if isinstance(i, ast.If) and ((isinstance(i.test, ast.UnaryOp) and isinstance(i.test.op, ast.Not) and isinstance(i.test.operand, ast.Name) and i.test.operand.id == pos) or (isinstance(i.test, ast.Compare) and len(i.test.ops) == 1 and isinstance(i.test.left, ast.Name) and i.test.left.id == pos and isinstance(i.test.comparators[0], ast.Constant) and ((isinstance(i.test.ops[0], (ast.Eq, ast.LtE)) and i.test.comparators[0].value == 0) or (isinstance(i.test.ops[0], ast.Lt) and i.test.comparators[0].value == 1))))]
        g = []
        for i in guards:
            exits = any(isinstance(s_, (ast.Break, ast.Return, ast.Continue)) for s_ in i.body)
            if exits:
                g += cfg.nodes_of(i, 'false')
        ctx.check(bool(g) and all(cfg.set_dominates(g, x) for x in cfg.nodes_of(yst, 'stmt')), 'C10.R5', f'{func_label(f)}|no-empty-chunk', loc(f, yst), 'a zero cut leaves the inner loop before the yield: no empty chunk is emitted', 'a zero cut can reach the yield: an empty chunk may be emitted (or the loop never ends)')
    # the buffer grows only by `buf += piece`, once per piece, before the iterator is advanced
    grows = [a for a in walk_local(f.node) if isinstance(a, ast.AugAssign) and isinstance(a.target, ast.Name) and a.target.id == buf]
    other = [c for c in calls_in(f.node) if isinstance(c.func, ast.Attribute) and isinstance(c.func.value, ast.Name) and c.func.value.id == buf and c.func.attr in ('extend', 'append', 'insert', 'clear', 'pop')]
    reass = [a for a in walk_local(f.node) if isinstance(a, ast.Assign) and any(isinstance(t, ast.Name) and t.id == buf for t in a.targets)]
    ok = len(grows) == 1 and isinstance(grows[0].op, ast.Add) and isinstance(grows[0].value, ast.Name) and not other and len(reass) == 1
    ctx.check(ok, 'C10.R4', f'{func_label(f)}|buffer-grows-by-piece', loc(f, grows[0]) if grows else loc(f, f.node), f'`{buf}` is created once and grows only by `{buf} += <current piece>`', f'`{buf}` is modified in other ways than appending the current piece')
    if grows:
        piece = grows[0].value.id if isinstance(grows[0].value, ast.Name) else None
        nexts = [c for c in calls_in(f.node) if dotted(c.func) == 'next' and any(isinstance(a, ast.While) for a in ancestors(c))]
        ctx.floor('C10.R4', 'look-ahead next() inside the loop', len(nexts))
        gst = enclosing_stmt(grows[0])
        for nx in nexts:
            nst = enclosing_stmt(nx)
            ok = all(cfg.set_dominates(cfg.nodes_of(gst, ('stmt', 'ok')), x) for x in cfg.nodes_of(nst, 'stmt')) and _same_iteration(gst, nst)
            ctx.check(
                ok,
                'C10.R4',
                f'{func_label(f)}|piece-copied-before-lookahead',
                loc(f, nst),
                f'the current piece is copied into `{buf}` before the iterator is advanced (a producer may reuse its buffer)',
                f'the iterator is advanced before `{piece}` has been copied into `{buf}`: a producer that reuses one buffer overwrites the piece and wrong bytes are chunked',
            )
        # finality == "there is no next piece"
        la = None
        for nx in nexts:
            st = enclosing_stmt(nx)
            if isinstance(st, ast.Assign) and isinstance(st.targets[0], ast.Name):
                la = st.targets[0].id
        fin = cut_calls[0].args[1] if len(cut_calls[0].args) > 1 else None
        core = fin.args[0] if isinstance(fin, ast.Call) and dotted(fin.func) == 'bool' and fin.args else fin
        if isinstance(core, ast.Name):
            d = [a for a in walk_local(f.node) if isinstance(a, ast.Assign) and isinstance(a.targets[0], ast.Name) and a.targets[0].id == core.id]
            core = d[0].value if len(d) == 1 else core
            if isinstance(core, ast.Call) and dotted(core.func) == 'bool' and core.args:
                core = core.args[0]
        okf = isinstance(core, ast.Compare) and len(core.ops) == 1 and isinstance(core.ops[0], ast.Is) and isinstance(core.left, ast.Name) and core.left.id == la and isinstance(core.comparators[0], ast.Constant) and core.comparators[0].value is None
        ctx.check(
            okf,
            'C10.R4',
            f'{func_label(f)}|final-iff-no-next-piece',
            loc(f, cut_calls[0]),
            f'the finality flag handed to next_cut is exactly `{la} is None` (the sentinel of the look-ahead)',
            f'the finality flag `{src(fin) if fin is not None else None}` is not "there is no next piece": an empty piece in mid-stream (or any falsy piece) is treated as end of stream and the tail rule cuts unaligned / out-of-bounds chunks',
        )
        # every iteration of the outer loop (every piece, empty ones included) reaches the cut loop
        if wl_outer := [w for w in walk_local(f.node) if isinstance(w, ast.While) and any(x is gst for x in ast.walk(w)) and not isinstance(w.test, ast.Constant)]:
            outer = wl_outer[0]
            cut_st = enclosing_stmt(cut_calls[0])
            cut_nodes = cfg.nodes_of(cut_st, ('stmt', 'ok'))
            heads = cfg.nodes_of(outer, 'loop')
            skip = None
            for t in cfg.nodes_of(outer, 'true'):
                skip = skip or cfg.path(t, heads, avoid=cut_nodes, kinds=('normal',))
            ctx.check(
                skip is None,
                'C10.R4',
                f'{func_label(f)}|every-piece-reaches-the-cut-loop',
                loc(f, outer),
                'every iteration of the piece loop runs the cut loop (also for an empty piece, also for the last one)',
                'an iteration of the piece loop can skip the cut loop (e.g. `continue` for an empty piece): when that piece is the last one the carry-over bytes are never drained and the end of the stream is lost',
                cfg.describe_path([n for n in (skip or []) if n.kind in ('stmt', 'true', 'false', 'test')][:8], f.module),
            )
        # the sentinel of next() is None and the loop runs while the piece is not None
        oksent = all(len(nx.args) == 2 and isinstance(nx.args[1], ast.Constant) and nx.args[1].value is None for nx in [c for c in calls_in(f.node) if dotted(c.func) == 'next'])
        wl = [w for w in walk_local(f.node) if isinstance(w, ast.While) and any(x is gst for x in ast.walk(w)) and not isinstance(w.test, ast.Constant)]
        okw = bool(wl) and isinstance(wl[0].test, ast.Compare) and isinstance(wl[0].test.ops[0], ast.IsNot) and isinstance(wl[0].test.left, ast.Name) and wl[0].test.left.id == piece and isinstance(wl[0].test.comparators[0], ast.Constant) and wl[0].test.comparators[0].value is None
        ctx.check(oksent and okw, 'C10.R4', f'{func_label(f)}|every-piece-consumed', loc(f, f.node), 'the outer loop runs while the current piece `is not None` (empty pieces are processed, not treated as the end)', 'the outer loop can stop at an empty/falsy piece: the rest of the stream is dropped')


def _same_iteration(a, b):
    pa = [x for x in ancestors(a) if isinstance(x, (ast.While, ast.For))]
    pb = [x for x in ancestors(b) if isinstance(x, (ast.While, ast.For))]
    return bool(pa) and bool(pb) and pa[0] is pb[0] and a.lineno < b.lineno


def _lin(e):
    """linear form {name: coef, '': const} of an index expression, None if not linear in names"""
    if e is None:
        return {}
    if isinstance(e, ast.Name):
        return {e.id: 1}
    if isinstance(e, ast.Constant) and isinstance(e.value, int) and not isinstance(e.value, bool):
        return {'': e.value} if e.value else {}
    if isinstance(e, ast.BinOp) and isinstance(e.op, (ast.Add, ast.Sub)):
        a, b = _lin(e.left), _lin(e.right)
        if a is None or b is None:
            return None
        return _lin_sub(a, b) if isinstance(e.op, ast.Sub) else _lin_sub(a, {k: -v for k, v in b.items()})
    return None


def _lin_sub(a, b):
    out = dict(a)
    for k, v in b.items():
        out[k] = out.get(k, 0) - v
    return {k: v for k, v in out.items() if v}


def _block(stmt):
    par = getattr(stmt, '_parent', None)
    for field in ('body', 'orelse', 'finalbody'):
        b = getattr(par, field, None)
        if isinstance(b, list) and any(s is stmt for s in b):
            return b
    return []


def run(ctx):
    docs = _docs(ctx)
    r1_bounds(ctx, docs)
    r2_purity(ctx, docs)
    r3_stateless(ctx)
    r4_prefix(ctx)
    # between the files and the chunker (and inside the adapter's Python part) every byte is handed on exactly once
    from .shared import no_negative_zero_slices

    props = ctx.corpus.cls('repository', 'RepositoryProps')
    adapters = ctx.corpus.module('adapters')
    funcs = list(props.methods.values()) + [m for c in adapters.classes.values() for m in c.methods.values()] + list(adapters.functions.values())
    funcs += [n for f in list(funcs) for n in f.all_nested()]
    sn = ctx.corpus.func('repository', 'Repository.snapshot')
    funcs += [sn] + list(sn.all_nested())
    no_negative_zero_slices(ctx, 'C10.R4', funcs, 'the piece is handed to the chunker a second time - the chunks no longer concatenate to the input')

