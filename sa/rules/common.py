"""Role discovery shared by the rule modules.  Roles are resolved from effects
(what a function references / calls), not from local identifiers."""
from __future__ import annotations

import ast
from typing import Dict, List, Optional, Set

from ..astutil import (
    FuncNode,
    ancestors,
    call_name,
    calls_in,
    dotted,
    enclosing_stmt,
    is_within,
    kwarg,
    src,
    walk_local,
)
from ..cfg import cfg_of
from ..loader import AnalysisError, ClassInfo, Corpus, FuncInfo
from ..terms import Evaluator, backend_method, contains, show, walk

TRANSFER = {'exists', 'upload', 'upload_stream', 'download', 'download_stream', 'delete'}
MUTATORS = {'upload', 'upload_stream', 'delete'}
MAINT = {'clean', 'close'}


def repo_cls(corpus: Corpus) -> ClassInfo:
    return corpus.cls('repository', 'Repository')


def loc(fi_or_module, node) -> str:
    m = getattr(fi_or_module, 'module', fi_or_module)
    return f'{m.rel}:{getattr(node, "lineno", 0)}'


def backend_refs(node, local=False):
    """Attribute nodes `self.backend.<m>` under node."""
    it = walk_local(node) if local else ast.walk(node)
    for n in it:
        if isinstance(n, ast.Attribute) and isinstance(n.value, ast.Attribute):
            if n.value.attr == 'backend' and isinstance(n.value.value, ast.Name) and n.value.value.id == 'self':
                yield n


def methods_of(corpus: Corpus, ci: ClassInfo) -> List[FuncInfo]:
    return list(ci.methods.values())


def wrappers_for(corpus: Corpus, methods: Set[str]) -> Dict[str, FuncInfo]:
    """Repository methods whose own body references self.backend.<m>, m in methods."""
    out = {}
    for f in methods_of(corpus, repo_cls(corpus)):
        for r in backend_refs(f.node, local=True):
            if r.attr in methods:
                out[f.name] = f
    return out


def self_calls(node, names, local=True):
    """Call nodes `self.<name>(...)` with name in names."""
    for c in calls_in(node, local=local):
        d = dotted(c.func)
        if d and d.startswith('self.') and d[5:] in names:
            yield c


def local_callgraph(fi: FuncInfo) -> Dict[str, Set[str]]:
    """Among fi and its nested functions: who references whom (by name), plus
    self.<method> references."""
    g = {}
    funcs = [fi] + list(fi.all_nested())
    names = {f.name for f in funcs}
    for f in funcs:
        refs = set()
        for n in walk_local(f.node):
            if isinstance(n, ast.Name) and n.id in names and n.id != f.name:
                refs.add(n.id)
            elif isinstance(n, ast.Attribute) and isinstance(n.value, ast.Name) and n.value.id == 'self':
                refs.add('self.' + n.attr)
        g[f.name] = refs
    return g


def reaches(corpus: Corpus, fi: FuncInfo, pred, depth=5, _seen=None) -> bool:
    """Does fi (through nested functions and self.* methods, depth-bounded)
    contain a node satisfying pred(node)?"""
    _seen = _seen if _seen is not None else set()
    if fi.key in _seen or depth < 0:
        return False
    _seen.add(fi.key)
    for n in walk_local(fi.node):
        if pred(n):
            return True
    cls = fi.cls
    for n in walk_local(fi.node):
        tgt = None
        if isinstance(n, ast.Name):
            cur = fi
            while cur is not None and tgt is None:
                tgt = cur.nested.get(n.id)
                cur = cur.parent
            if tgt is None and n.id in fi.module.functions:
                tgt = fi.module.functions[n.id]
        elif isinstance(n, ast.Attribute) and isinstance(n.value, ast.Name) and n.value.id == 'self' and cls is not None:
            tgt = corpus.method(cls, n.attr)
        if tgt is not None and tgt is not fi and reaches(corpus, tgt, pred, depth - 1, _seen):
            return True
    return False


def is_backend_ref(n, methods) -> bool:
    return (
        isinstance(n, ast.Attribute)
        and n.attr in methods
        and isinstance(n.value, ast.Attribute)
        and n.value.attr == 'backend'
    )


def nested_by_role(corpus, fi: FuncInfo, pred) -> List[FuncInfo]:
    """Nested functions of fi that reach a node satisfying pred."""
    return [f for f in fi.all_nested() if reaches(corpus, f, pred)]


def own_stmt_of_chain(e, fi: FuncInfo):
    """The statement in fi's own body through which event e was reached."""
    for node, cfi, module in e.chain:
        if cfi is fi:
            return enclosing_stmt(node)
    if e.func is fi:
        return enclosing_stmt(e.node)
    return None


def own_call_of_chain(e, fi: FuncInfo):
    for node, cfi, module in e.chain:
        if cfi is fi:
            return node
    if e.func is fi:
        return e.node
    return None


def evaluate(corpus, fi, modes=None, depth=6, nonnull=(), kwargs=None) -> Evaluator:
    ev = Evaluator(corpus, modes=modes, depth=depth, nonnull=nonnull)
    ev.result = ev.run(fi, kwargs=kwargs)
    return ev


def backend_events(ev: Evaluator, methods=None):
    """De-duplicated backend reference events: (method, event)."""
    seen = set()
    out = []
    for e in ev.events:
        m = backend_method(e.callee)
        if m is None or (methods is not None and m not in methods):
            continue
        if e.synthetic:
            # the same reference is recorded at the direct call in the wrapper
            pass
        key = (m, id(e.node), e.args, e.chain and tuple(id(c[0]) for c in e.chain))
        if key in seen:
            continue
        seen.add(key)
        out.append((m, e))
    return out


def const_of(corpus, ci: ClassInfo, name):
    n = corpus.class_const(ci, name)
    if n is None or not isinstance(n, ast.Constant):
        raise AnalysisError(f'anchor constant missing: {ci.name}.{name}')
    return n.value


def term_has_const(t, value) -> bool:
    return contains(t, lambda x: x == ('const', value))


def term_calls_func(t, suffix) -> bool:
    """term contains an (un-inlined or inlined-marker) reference to a function
    whose key ends with suffix"""
    return contains(t, lambda x: x[0] in ('func', 'bound', 'closure') and str(x[-1] if x[0] != 'closure' else x[1]).endswith(suffix))


def is_list_files_elem(t, prefix_value=None) -> bool:
    """t contains elem-of backend.list_files(prefix)"""

    def p(x):
        if x[0] == 'call' and backend_method(x[1]) == 'list_files':
            if prefix_value is None:
                return True
            return bool(x[2]) and x[2][0] == ('const', prefix_value)
        return False

    return contains(t, p)


def awaited_calls(stmt):
    """Call nodes directly awaited in stmt."""
    for n in walk_local(stmt):
        if isinstance(n, ast.Await) and isinstance(n.value, ast.Call):
            yield n.value


def func_label(fi: FuncInfo) -> str:
    return f'{fi.module.rel}|{fi.qual}'


def stream_producers(snap):
    """nested generator(s) of snapshot that read the source files: they open a file for reading and yield its pieces
    (through `.read(n)` or a chunk-iterator helper) - found among all nested functions, at any depth"""
    import ast as _ast
    from ..astutil import walk_local as _wl

    out = []
    for p in snap.all_nested():
        if not p.is_generator:
            continue
        reads = any(isinstance(n, _ast.Call) and isinstance(n.func, _ast.Attribute) and n.func.attr in ('read', 'read1', 'readinto') for n in _wl(p.node))
        opens = any(isinstance(n, _ast.Call) and isinstance(n.func, _ast.Attribute) and n.func.attr == 'open' and any(isinstance(a, _ast.Constant) and a.value == 'rb' for a in list(n.args) + [k.value for k in n.keywords]) for n in _wl(p.node))
        iters = any(isinstance(n, _ast.Call) and (dotted(n.func) or '').rsplit('.', 1)[-1] in ('iter_chunks',) for n in _wl(p.node))
        if reads or (opens and iters):
            out.append(p)
    return out


def listing_getter_roles(corpus, cmd):
    """keyword names under which a listing command hands (snapshot path, snapshot data) to its column getters:
    the value of the `path` role is the loop variable bound from _load_snapshots, the `data` role is <body>['data']"""
    import ast as _ast
    from ..astutil import deref as _deref, walk_local as _wl

    f = corpus.func('repository', f'Repository.{cmd}')
    roles = {}
    for c in _ast.walk(f.node):
        if isinstance(c, _ast.Call) and isinstance(c.func, _ast.Name) and c.keywords and not c.args:
            for k in c.keywords:
                if k.arg is None:
                    continue
                v = _deref(f.node, k.value)
                if isinstance(v, _ast.Subscript) and isinstance(v.slice, _ast.Constant) and v.slice.value == 'data':
                    roles['data'] = k.arg
            if 'data' in roles:
                # the path role: the keyword whose value is a loop target of the snapshot loader loop
                for l in _wl(f.node):
                    if isinstance(l, (_ast.For, _ast.AsyncFor)) and isinstance(l.target, _ast.Tuple) and l.target.elts and isinstance(l.target.elts[0], _ast.Name):
                        for k in c.keywords:
                            if isinstance(k.value, _ast.Name) and k.value.id == l.target.elts[0].id:
                                roles.setdefault('path', k.arg)
                break
    return roles
