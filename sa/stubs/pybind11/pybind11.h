// Minimal stand-in for pybind11 (headers are not installed in this sandbox).
// Declares only what src/adapters.cpp uses, so that clang can type-check the
// translation unit and dump its AST. Part of the trusted base of C10/C11.
#pragma once
#include <cstddef>
namespace pybind11 {
struct buffer_info {
    void* ptr;
    long size;
};
class buffer {
public:
    buffer_info request() const;
};
template <typename... Args> struct init {};
class module_ {};
template <typename T> class class_ {
public:
    class_(module_&, const char*);
    template <typename... A> class_& def(A&&...);
    template <typename... A> class_& def_readonly(A&&...);
};
}  // namespace pybind11
#define PYBIND11_MODULE(name, var) static void pybind11_init_##name(::pybind11::module_& var)
