#!/usr/bin/env python
"""Entry point: /venv/bin/python /verif/sa/check.py Cnn [--tier quick|thorough] [--repo DIR]
                 /venv/bin/python /verif/sa/check.py --replay <replay.json>

Static analysis only: /repo is parsed, never imported or executed.
Exit 0: every obligation holds (or is a listed known finding)
Exit 1: VIOLATION property=<id> replay=<path>
Exit 2: ANALYSIS-ERROR (missing anchor, unparsable module, floor not met, internal error) and no violation established before that point
"""
from __future__ import annotations

import argparse
import importlib
import json
import os
import sys
import traceback

# run-to-run determinism: terms contain frozensets of strings, whose iteration order follows the string hash seed
if os.environ.get('PYTHONHASHSEED') != '0' and __name__ == '__main__':
    os.environ['PYTHONHASHSEED'] = '0'
    os.execv(sys.executable, [sys.executable] + sys.argv)

sys.path.insert(0, os.path.dirname(os.path.dirname(os.path.abspath(__file__))))

from sa.loader import AnalysisError, Corpus  # noqa: E402
from sa.report import Ctx, write_evidence, write_replay  # noqa: E402


def run_property(prop, repo='/repo', tier='quick', seed=0, quiet=False, filemap=None, use_known=True, only_rule=None, selftest=True):
    corpus = Corpus(repo, filemap=filemap)
    ctx = Ctx(prop, corpus, tier=tier, seed=seed, quiet=quiet, use_known=use_known)
    ctx.only_rule = only_rule
    ctx.skip_selftest = not selftest
    mod = importlib.import_module(f'sa.rules.{prop.lower()}')
    try:
        mod.run(ctx)
    except AnalysisError as e:
        # A violation that was already established stays a violation; the rest of the analysis is reported as incomplete.
        # Without an established violation the run is an analysis error (exit 2), never a pass.
        if not ctx.failures:
            raise
        ctx.incomplete = str(e)
    return ctx, mod


def main(argv=None):
    ap = argparse.ArgumentParser()
    ap.add_argument('prop', nargs='?')
    ap.add_argument('--tier', default=os.environ.get('VERIF_TIER') or 'quick', choices=['quick', 'thorough'])
    ap.add_argument('--repo', default='/repo')
    ap.add_argument('--replay')
    ap.add_argument('--no-evidence', action='store_true')
    ap.add_argument('--quiet', action='store_true')
    args = ap.parse_args(argv)
    if os.environ.get('VERIF_TIER') in ('quick', 'thorough'):
        args.tier = os.environ['VERIF_TIER']
    seed = int(os.environ.get('VERIF_SEED', '0') or 0)

    only_rule = None
    if args.replay:
        with open(args.replay) as fh:
            rp = json.load(fh)
        args.prop = rp['property']
        only_rule = rp['rule']
        print(f'replaying {rp["rule"]} [{rp["key"]}] on {args.repo}')

    if not args.prop:
        ap.error('property id required')
    prop = args.prop.upper()
    try:
        print(f'== {prop} tier={args.tier} repo={args.repo} seed={seed}')
        ctx, mod = run_property(prop, args.repo, args.tier, seed, args.quiet, only_rule=only_rule, selftest=not args.replay)
        print(
            f'analysed: {len(ctx.corpus.modules)} modules, {len(ctx.analysed_functions)} functions, '
            f'{len(ctx.obligations)} obligations, counters={ctx.counters}'
        )
        if args.tier == 'thorough' and not args.replay and not ctx.failures:
            from sa import selftest

            selftest.run(ctx, prop)
        if not args.no_evidence and not args.replay:
            write_evidence(
                ctx,
                explanation=mod.EXPLANATION,
                undecided=mod.NOT_DECIDED,
                trusted=getattr(mod, 'TRUSTED', []),
                assumptions=getattr(mod, 'ASSUMPTIONS', []),
                extra=getattr(ctx, 'extra_evidence', None),
            )
    except AnalysisError as e:
        print(f'ANALYSIS-ERROR property={prop} {e}')
        return 2
    except Exception as e:  # internal error: never a verdict
        traceback.print_exc()
        print(f'ANALYSIS-ERROR property={prop} internal error: {type(e).__name__}: {e}')
        return 2

    for o in ctx.knowns:
        print(f'KNOWN-FINDING: property={prop} {o.rule} {o.site} {o.what}')
    if ctx.failures:
        if getattr(ctx, 'incomplete', None):
            print(f'ANALYSIS-INCOMPLETE property={prop} (violations below were established before the analysis gave up) {ctx.incomplete}')
        done = set()
        for o in ctx.failures:
            if o.key in done:
                continue
            done.add(o.key)
            path = write_replay(ctx, o)
            print(f'VIOLATION property={prop} replay={path}')
            print(f'  {o.rule} {o.site}: {o.what}')
        return 1
    print(f'PASS property={prop} obligations={len(ctx.obligations)} known_findings={len(ctx.knowns)}')
    return 0


if __name__ == '__main__':
    code = main()
    sys.stdout.flush()
    os._exit(code)
