"""Obligation bookkeeping, known findings, evidence files, exit codes."""
from __future__ import annotations

import hashlib
import json
import os
import time
from typing import Dict, List, Optional

from .loader import AnalysisError, Corpus

VERIF = os.path.dirname(os.path.dirname(os.path.abspath(__file__)))
KNOWN_FILE = os.path.join(VERIF, 'known_findings.json')
EVIDENCE_DIR = os.path.join(VERIF, 'evidence')


class Obligation:
    __slots__ = ('rule', 'status', 'site', 'what', 'key', 'diag')

    def __init__(self, rule, status, site, what, key=None, diag=None):
        self.rule = rule
        self.status = status  # ok | fail | known | info
        self.site = site
        self.what = what
        self.key = key
        self.diag = diag or []

    def as_dict(self):
        d = {'rule': self.rule, 'verdict': self.status, 'site': self.site, 'what': self.what}
        if self.key:
            d['key'] = self.key
        if self.diag:
            d['diagnosis'] = self.diag[:12]
        return d


def load_known() -> dict:
    try:
        with open(KNOWN_FILE, encoding='utf-8') as fh:
            return json.load(fh)
    except FileNotFoundError:
        return {'known': [], 'fixed': []}


class Ctx:
    """Per-run context handed to the rule modules."""

    def __init__(self, prop, corpus: Corpus, tier='quick', seed=0, quiet=False, use_known=True):
        self.prop = prop
        self.corpus = corpus
        self.tier = tier
        self.seed = seed
        self.quiet = quiet
        self.obligations: List[Obligation] = []
        self.counters: Dict[str, int] = {}
        self.notes: List[str] = []
        self.analysed_functions = set()
        known = load_known() if use_known else {'known': []}
        self.known = {k['key']: k for k in known.get('known', []) if k.get('property') == prop}
        self.t0 = time.time()
        self.only_rule: Optional[str] = None
        self.skip_selftest = False
        self._seen = set()

    # -- output -------------------------------------------------------------
    def say(self, msg):
        if not self.quiet:
            print(msg)

    def count(self, name, n=1):
        self.counters[name] = self.counters.get(name, 0) + n

    def analysed(self, *funcs):
        for f in funcs:
            if f is not None:
                self.analysed_functions.add(getattr(f, 'key', str(f)))

    # -- verdicts -------------------------------------------------------------
    def ok(self, rule, site, what):
        if self.only_rule and not rule.startswith(self.only_rule):
            return
        if (rule, 'ok', site, what) in self._seen:
            return
        self._seen.add((rule, 'ok', site, what))
        self.obligations.append(Obligation(rule, 'ok', site, what))
        self.say(f'OK   {rule} {site} {what}')

    def info(self, rule, site, what):
        self.notes.append(f'{rule} {site} {what}')
        self.say(f'NOTE {rule} {site} {what}')

    def fail(self, rule, key, site, what, diag=None):
        """key: stable construct key `file|qualified function|role` (no line numbers)."""
        if self.only_rule and not rule.startswith(self.only_rule):
            return
        full = f'{rule}|{key}'
        if (rule, 'fail', full, site) in self._seen:
            return
        self._seen.add((rule, 'fail', full, site))
        if full in self.known:
            self.obligations.append(Obligation(rule, 'known', site, what, full, diag))
            self.say(f'KNOWN {rule} {site} {what}')
        else:
            self.obligations.append(Obligation(rule, 'fail', site, what, full, diag))
            self.say(f'FAIL {rule} {site} {what}')
            for d in (diag or [])[:20]:
                self.say(f'       {d}')

    def check(self, cond, rule, key, site, what, fail_what=None, diag=None):
        if cond:
            self.ok(rule, site, what)
        else:
            self.fail(rule, key, site, fail_what or ('NOT: ' + what), diag)
        return cond

    def floor(self, rule, role, count, minimum=1):
        if count < minimum:
            raise AnalysisError(
                f'{rule}: non-vacuity floor not met for role "{role}": found {count}, need >= {minimum}'
            )

    def require(self, cond, msg):
        if not cond:
            raise AnalysisError(msg)

    # -- results --------------------------------------------------------------
    @property
    def failures(self):
        return [o for o in self.obligations if o.status == 'fail']

    @property
    def knowns(self):
        return [o for o in self.obligations if o.status == 'known']


def finding_id(key: str) -> str:
    return hashlib.sha1(key.encode()).hexdigest()[:12]


def write_evidence(ctx: Ctx, explanation: str, undecided: str, trusted: List[str], assumptions: List[str], extra=None):
    os.makedirs(EVIDENCE_DIR, exist_ok=True)
    obs = ctx.obligations
    decided = [o for o in obs if o.status in ('ok', 'fail', 'known')]
    distinct = len({(o.rule, o.site, o.what) for o in decided})
    samples = [o.as_dict() for o in decided[:8]]
    bad = [o.as_dict() for o in obs if o.status in ('fail', 'known')]
    for b in bad:
        if b not in samples:
            samples.append(b)
    cov = {
        'explanation': explanation,
        'not_decided': undecided,
        'obligations': len(decided),
        'discharged': len([o for o in decided if o.status == 'ok']),
        'known_findings': len(ctx.knowns),
        'evaluations': len(decided),
        'distinct_nontrivial': distinct,
        'rule': 'one evaluation = one rule instance (rule x resolved site / path / table row) re-derived from /repo on this run; '
        'distinct_nontrivial counts distinct (rule, site, statement) triples whose decision examined at least one resolved construct',
        'samples': samples,
        'rules_applied': sorted({o.rule for o in decided}),
        'modules_parsed': sorted(ctx.corpus.modules) + sorted(ctx.corpus.extra_files),
        'functions_analysed': len(ctx.analysed_functions),
        'counters': ctx.counters,
        'trusted_base': trusted,
        'notes': ctx.notes[:20],
        'exhaustive': True,
        'checker_cmd': f'/venv/bin/python /verif/sa/check.py {ctx.prop} --tier {ctx.tier}',
    }
    if extra:
        cov.update(extra)
    ev = {
        'property_id': ctx.prop,
        'tier': ctx.tier,
        'seed': int(ctx.seed),
        'level': 'other',
        'coverage': cov,
        'assumptions': assumptions,
        'wall_s': round(time.time() - ctx.t0, 3),
        'violations': len(ctx.failures),
    }
    path = os.path.join(EVIDENCE_DIR, f'{ctx.prop}.json')
    tmp = path + '.tmp'
    with open(tmp, 'w', encoding='utf-8') as fh:
        json.dump(ev, fh, indent=1, sort_keys=False)
    os.replace(tmp, path)
    return path


def write_replay(ctx: Ctx, o: Obligation) -> str:
    d = os.path.join(EVIDENCE_DIR, 'replay')
    os.makedirs(d, exist_ok=True)
    path = os.path.join(d, f'{ctx.prop}-{finding_id(o.key)}.json')
    with open(path, 'w', encoding='utf-8') as fh:
        json.dump(
            {
                'property': ctx.prop,
                'rule': o.rule,
                'key': o.key,
                'site': o.site,
                'what': o.what,
                'diagnosis': o.diag,
                'replay': f'/venv/bin/python /verif/sa/check.py --replay {path}',
            },
            fh,
            indent=1,
        )
    return path


class Relabel:
    """Report a shared rule under another property's rule id."""

    def __init__(self, ctx, rule):
        self._c = ctx
        self._r = rule

    def __getattr__(self, n):
        return getattr(self._c, n)

    def ok(self, rule, *a):
        return self._c.ok(self._r, *a)

    def fail(self, rule, *a, **k):
        return self._c.fail(self._r, *a, **k)

    def check(self, cond, rule, *a, **k):
        return self._c.check(cond, self._r, *a, **k)

    def floor(self, rule, *a):
        return self._c.floor(self._r, *a)
