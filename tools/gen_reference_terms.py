#!/usr/bin/env python
"""Record canonical digests of a few whole-pipeline provenance terms of the tree the rules were designed against
(sa/reference_terms.json).  A rule whose helper anchors were restructured away may fall back to "the term the code
computes is the very term the design tree computed" - which can only turn an undecided verdict into a pass, never
into a violation (a differing term stays undecided).

usage: gen_reference_terms.py [repo]   (development aid, not used by the checks)"""
import json
import os
import sys

sys.path.insert(0, os.path.dirname(os.path.dirname(os.path.abspath(__file__))))

from sa.loader import Corpus  # noqa: E402
from sa.rules.c16 import signing_pipeline_digest  # noqa: E402


def main():
    repo = sys.argv[1] if len(sys.argv) > 1 else '/repo'
    corpus = Corpus(repo)
    out = {'C16.signing_pipeline': signing_pipeline_digest(corpus)}
    p = os.path.join(os.path.dirname(os.path.dirname(os.path.abspath(__file__))), 'sa', 'reference_terms.json')
    json.dump(out, open(p, 'w'), indent=1, sort_keys=True)
    print(p, out)


if __name__ == '__main__':
    main()
