#!/usr/bin/env python
"""Development aid (not a registered check): confirm seeded defects produced by
independent sub-agents and record which checks catch them.

For each /tmp/seedout/<ID>/<k>/{patch.diff,demo.py,meta.json}:
  1. scratch git worktree of /repo HEAD (under /tmp, removed afterwards)
  2. patch applies; the repository's 256 tests pass with it
  3. demo fails with the patch, passes without it
  4. every quick check is run against the patched tree (--repo <worktree>)
Verified seeds are stored as /verif/seeded/<ID>-<k>/ (patch.diff, demo.py, meta.json).
"""
import json
import os
import re
import shutil
import subprocess
import sys
from concurrent.futures import ThreadPoolExecutor

SEEDOUT = sys.argv[1] if len(sys.argv) > 1 else '/tmp/seedout'
DEST = os.environ.get('SEED_DEST', '/verif/seeded')
PY = '/venv/bin/python'
PROPS = [f'C{i:02d}' for i in range(1, 21)]


def sh(cmd, cwd=None, timeout=900):
    try:
        r = subprocess.run(cmd, shell=True, cwd=cwd, capture_output=True, text=True, timeout=timeout)
        return r.returncode, r.stdout + r.stderr
    except subprocess.TimeoutExpired as e:
        return 124, 'TIMEOUT ' + str(e)


def verify(item):
    pid, k, wt = item
    d = os.path.join(SEEDOUT, pid, k)
    patch = os.path.join(d, 'patch.diff')
    demo = os.path.join(d, 'demo.py')
    res = {'seed': f'{pid}/{k}', 'property': pid}
    if not (os.path.exists(patch) and os.path.exists(demo)):
        res['status'] = 'incomplete'
        return res
    sh('git checkout -q -- . && git clean -fdq', cwd=wt)
    rc, out = sh(f'git apply --check {patch}', cwd=wt)
    if rc != 0:
        rc, out = sh(f'git apply --3way {patch}', cwd=wt)
        if rc != 0:
            res['status'] = 'patch does not apply to the current HEAD'
            res['detail'] = out[-300:]
            sh('git checkout -q -- . && git clean -fdq', cwd=wt)
            return res
        sh('git reset -q', cwd=wt)
        res['rebased'] = True
        rc, rebased = sh('git diff', cwd=wt)
        res['_patch_text'] = rebased
    else:
        sh(f'git apply {patch}', cwd=wt)
        res['_patch_text'] = open(patch).read()
    rc, out = sh(f'{PY} -m pytest -q -p no:cacheprovider --timeout=900 -x 2>&1 | tail -3', cwd=wt)
    m = re.search(r'(\d+) passed', out)
    res['suite_passed_with_change'] = int(m.group(1)) if m else 0
    res['suite_failed_with_change'] = bool(re.search(r'\d+ (failed|error)', out))
    rc1, out1 = sh(f'{PY} -m pytest -q -p no:cacheprovider -x {demo} 2>&1 | tail -5', cwd=wt, timeout=400)
    res['demo_fails_with_change'] = bool(re.search(r'\d+ (failed|error)', out1))
    # checks against the patched tree
    flagged = {}

    def run_check(p):
        r = subprocess.run([PY, os.environ.get('CHECK_PY', '/verif/sa/check.py'), p, '--repo', wt, '--no-evidence', '--quiet'], capture_output=True, text=True)
        rules = sorted(set(re.findall(r'^  (C\d\d\.R\d+)', r.stdout, re.M)))
        return p, r.returncode, rules

    with ThreadPoolExecutor(8) as ex:
        for p, code, rules in ex.map(run_check, PROPS):
            if code != 0:
                flagged[p] = {'exit': code, 'rules': rules}
    res['checks_flagging'] = flagged
    sh('git checkout -q -- . && git clean -fdq', cwd=wt)
    rc2, out2 = sh(f'{PY} -m pytest -q -p no:cacheprovider -x {demo} 2>&1 | tail -5', cwd=wt, timeout=400)
    res['demo_passes_on_head'] = bool(re.search(r'\d+ passed', out2)) and not re.search(r'\d+ (failed|error)', out2)
    ok = res['suite_passed_with_change'] >= 256 and not res['suite_failed_with_change'] and res['demo_fails_with_change'] and res['demo_passes_on_head']
    res['status'] = 'verified' if ok else 'rejected'
    if not ok:
        res['detail'] = (out1[-200:] + ' | ' + out2[-200:])
    return res


def main():
    items = []
    for pid in sorted(os.listdir(SEEDOUT)):
        for k in sorted(os.listdir(os.path.join(SEEDOUT, pid))):
            if os.path.isdir(os.path.join(SEEDOUT, pid, k)):
                items.append((pid, k))
    only = sys.argv[2:] if len(sys.argv) > 2 else None
    if only:
        items = [it for it in items if f'{it[0]}/{it[1]}' in only or it[0] in only]
    n = min(6, len(items))
    wts = []
    for i in range(n):
        wt = f'/tmp/wt/verify{i}'
        sh(f'git -C /repo worktree remove --force {wt}')
        rc, out = sh(f'git -C /repo worktree add -q --detach {wt} HEAD')
        wts.append(wt)
    head = sh('git -C /repo rev-parse --short HEAD')[1].strip()
    results = []
    try:
        import queue

        q = queue.Queue()
        for w in wts:
            q.put(w)

        def work(it):
            w = q.get()
            try:
                return verify((it[0], it[1], w))
            finally:
                q.put(w)

        with ThreadPoolExecutor(n) as ex:
            for res in ex.map(work, items):
                results.append(res)
                own = res.get('checks_flagging', {}).get(res['property'])
                print(res['seed'], res['status'], 'own-check:', own, 'others:', sorted(set(res.get('checks_flagging', {})) - {res['property']}), flush=True)
                if res['status'] == 'verified':
                    pid, k = res['seed'].split('/')
                    dst = os.path.join(DEST, f'{pid}-{k}' + os.environ.get('SEED_SUFFIX', ''))
                    os.makedirs(dst, exist_ok=True)
                    with open(os.path.join(dst, 'patch.diff'), 'w') as fh:
                        fh.write(res.pop('_patch_text'))
                    shutil.copy(os.path.join(SEEDOUT, pid, k, 'demo.py'), os.path.join(dst, 'demo.py'))
                    agent_meta = {}
                    try:
                        agent_meta = json.load(open(os.path.join(SEEDOUT, pid, k, 'meta.json')))
                    except Exception:
                        pass
                    meta = {
                        'property': pid,
                        'breaks': agent_meta.get('summary', ''),
                        'mechanism': agent_meta.get('mechanism', ''),
                        'needs_to_manifest': agent_meta.get('needs_to_manifest', ''),
                        'files_touched': agent_meta.get('files_touched', []),
                        'origin': 'independent sub-agent given only the property text and a scratch worktree',
                        'verified_against_repo_head': head,
                        'what_was_run': [
                            'git apply patch.diff in a scratch worktree of /repo HEAD',
                            'pytest (baseline suite) with the change: %d passed, no failures' % res['suite_passed_with_change'],
                            'pytest demo.py with the change: fails',
                            'pytest demo.py on clean HEAD: passes',
                            'every quick check with --repo <patched worktree>',
                        ],
                        'rebased_onto_fix_commits': bool(res.get('rebased')),
                        'checks_flagging': res['checks_flagging'],
                        'caught_by_own_property_check': pid in res['checks_flagging'] and res['checks_flagging'][pid]['exit'] == 1,
                    }
                    with open(os.path.join(dst, 'meta.json'), 'w') as fh:
                        json.dump(meta, fh, indent=1)
                res.pop('_patch_text', None)
    finally:
        for w in wts:
            sh(f'git -C /repo worktree remove --force {w}')
        sh('git -C /repo worktree prune')
    with open(os.environ.get('SEED_RESULTS', '/tmp/verify_seeds_results.json'), 'w') as fh:
        json.dump(results, fh, indent=1)
    v = [r for r in results if r['status'] == 'verified']
    print(f'{len(v)}/{len(results)} verified;', sum(1 for r in v if r['property'] in r['checks_flagging'] and r['checks_flagging'][r['property']]['exit'] == 1), 'caught by own property check;', sum(1 for r in v if any(c['exit'] == 1 for c in r['checks_flagging'].values())), 'caught by some check')


if __name__ == '__main__':
    main()
