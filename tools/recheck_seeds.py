#!/usr/bin/env python
"""Re-run the checks against every stored seeded defect (/verif/seeded/*): each check that reported the
defect when it was recorded must still report it.  Development aid (the thorough tier does the same per
property).  usage: recheck_seeds.py [filter ...]"""
import concurrent.futures as cf
import glob
import json
import os
import shutil
import subprocess
import sys
import tempfile

ROOT = os.path.dirname(os.path.dirname(os.path.abspath(__file__)))


def one(d):
    meta = json.load(open(os.path.join(d, 'meta.json')))
    tmp = tempfile.mkdtemp(prefix='reseed_', dir='/tmp')
    res = {'seed': os.path.basename(d), 'property': meta['property'], 'lost': [], 'gained': [], 'own': None}
    try:
        subprocess.run('git -C /repo archive HEAD | tar -x -C ' + tmp, shell=True, check=True)
        r = subprocess.run(['git', 'apply', '--unsafe-paths', '--directory=' + tmp, os.path.join(d, 'patch.diff')], capture_output=True, text=True, cwd='/')
        if r.returncode != 0:
            r = subprocess.run(['patch', '-p1', '-s', '-i', os.path.join(d, 'patch.diff')], cwd=tmp, capture_output=True, text=True)
            if r.returncode != 0:
                res['own'] = 'PATCH-FAILED'
                return res
        expected = {p for p, v in meta.get('checks_flagging', {}).items() if v.get('exit') == 1}
        props = sorted(expected | {meta['property']}) if '--all' not in sys.argv else [f'C{i:02d}' for i in range(1, 21)]
        for p in props:
            r = subprocess.run(['/venv/bin/python', os.path.join(ROOT, 'sa', 'check.py'), p, '--repo', tmp, '--no-evidence', '--quiet'], capture_output=True, text=True)
            if p == meta['property']:
                res['own'] = r.returncode
            if p in expected and r.returncode != 1:
                res['lost'].append((p, r.returncode))
            if p not in expected and r.returncode == 1:
                res['gained'].append(p)
    finally:
        shutil.rmtree(tmp, ignore_errors=True)
    return res


def main():
    flt = [a for a in sys.argv[1:] if not a.startswith('--')]
    dirs = sorted(d for d in glob.glob(os.path.join(ROOT, 'seeded', '*')) if os.path.exists(os.path.join(d, 'meta.json')))
    if flt:
        dirs = [d for d in dirs if any(f in d for f in flt)]
    out = []
    with cf.ThreadPoolExecutor(12) as ex:
        for r in ex.map(one, dirs):
            out.append(r)
            if r['lost'] or r['own'] != 1 or ('--all' in sys.argv and r['gained']):
                print(r['seed'], 'own exit', r['own'], 'LOST', r['lost'], 'GAINED', r['gained'], flush=True)
    if '--update' in sys.argv:
        for r in out:
            mp = os.path.join(ROOT, 'seeded', r['seed'], 'meta.json')
            m = json.load(open(mp))
            cf_ = m.get('checks_flagging', {})
            for p_, _code in r['lost']:
                cf_.pop(p_, None)
            for p_ in r['gained']:
                cf_[p_] = {'exit': 1, 'rules': []}
            m['checks_flagging'] = cf_
            m['caught_by_own_property_check'] = r['own'] == 1
            json.dump(m, open(mp, 'w'), indent=1)
    own = sum(1 for r in out if r['own'] == 1)
    print(f'{len(out)} seeds: {own} reported by their own property check; {sum(1 for r in out if r["lost"])} seeds lost a recorded detection')


if __name__ == '__main__':
    main()
