#!/usr/bin/env python
"""Run every check against behaviour-preserving refactorings (development aid; never
used by the registered checks).

usage: run_benign.py <dir with <area>/<k>/patch.diff> [--tests] [filter ...]

For each patch: apply it to a scratch copy of /repo HEAD, optionally run the pinned
suite (to confirm the refactoring is accepted by it), run all 20 quick checks and
report every check that does not exit 0.  Exit 1 = violation reported on a benign
refactoring (a false alarm), exit 2 = the analysis gave up on it (undecided)."""
import concurrent.futures as cf
import glob
import json
import os
import re
import shutil
import subprocess
import sys
import tempfile

PROPS = [f'C{i:02d}' for i in range(1, 21)]
CHECK = os.environ.get('CHECK_PY', '/verif/sa/check.py')


def one(patch, tests):
    tmp = tempfile.mkdtemp(prefix='benign_', dir='/tmp')
    out = {'patch': patch, 'tests': None, 'checks': {}}
    try:
        subprocess.run('git -C /repo archive HEAD | tar -x -C ' + tmp, shell=True, check=True)
        r = subprocess.run(['git', 'apply', '--unsafe-paths', '--directory=' + tmp, patch], capture_output=True, text=True, cwd='/')
        if r.returncode != 0:
            out['tests'] = 'PATCH-FAILED ' + r.stderr[-300:]
            return out
        if tests:
            r = subprocess.run(['/venv/bin/python', '-m', 'pytest', '-q', '-p', 'no:cacheprovider', '--timeout=900', '-x'], cwd=tmp, capture_output=True, text=True)
            m = re.search(r'(\d+) passed', r.stdout)
            f = re.search(r'(\d+) failed', r.stdout)
            out['tests'] = f'{m.group(1) if m else 0} passed, {f.group(1) if f else 0} failed'
        for p in PROPS:
            r = subprocess.run(['/venv/bin/python', CHECK, p, '--repo', tmp, '--no-evidence'], capture_output=True, text=True)
            if r.returncode != 0:
                lines = [l for l in r.stdout.splitlines() if l.startswith(('FAIL', 'ANALYSIS-ERROR'))]
                out['checks'][p] = {'exit': r.returncode, 'lines': [l[:400] for l in lines[:8]]}
    finally:
        shutil.rmtree(tmp, ignore_errors=True)
    return out


def main():
    args = [a for a in sys.argv[1:] if not a.startswith('--')]
    tests = '--tests' in sys.argv
    root = args[0]
    filters = args[1:]
    patches = sorted(glob.glob(os.path.join(root, '*', '*', 'patch.diff')))
    if filters:
        patches = [p for p in patches if any(f in p for f in filters)]
    res = []
    with cf.ThreadPoolExecutor(8) as ex:
        for r in ex.map(lambda p: one(p, tests), patches):
            res.append(r)
            name = '/'.join(r['patch'].split('/')[-3:-1])
            bad = {k: v['exit'] for k, v in r['checks'].items()}
            print(f'{name}: tests={r["tests"]} non-silent={bad or "-"}', flush=True)
            for k, v in r['checks'].items():
                for l in v['lines']:
                    print(f'      {k}: {l[:300]}')
    json.dump(res, open(os.environ.get('BENIGN_RESULTS', '/tmp/benign_results.json'), 'w'), indent=1)
    n1 = sum(1 for r in res if any(v['exit'] == 1 for v in r['checks'].values()))
    n2 = sum(1 for r in res if any(v['exit'] == 2 for v in r['checks'].values()))
    print(f'{len(res)} refactorings: {n1} with a false alarm, {n2} with an undecided check, {len(res) - len([r for r in res if r["checks"]])} fully silent')


if __name__ == '__main__':
    main()
