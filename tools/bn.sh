#!/bin/sh
# usage: bn.sh <area>/<k> [Cnn ...]  - apply a benign patch to /tmp/bn/<area>-<k> and run checks (development aid)
d=/tmp/bn/$(echo $1 | tr / -)
rm -rf $d; mkdir -p $d; git -C /repo archive HEAD | tar -x -C $d; (cd $d && git apply ${BN_ROOT:-/tmp/benign3}/$1/patch.diff) || exit 3
shift
for p in "$@"; do /venv/bin/python /verif/sa/check.py $p --repo $d --no-evidence --quiet 2>&1 | grep -A3 "^FAIL\|^ANALYSIS\|^PASS\|^VIOLATION" | cut -c1-420; done
