#!/usr/bin/env python
"""Record the functions, classes and named constants of the tree the rule set was
designed against (sa/inventory.json).  sa/normalize.py treats every function and
constant that is NOT in this inventory as a transparent helper: it is expanded at
its use sites before the rules look at the code, so that "extract helper" / "name
the constant" refactorings do not change what the rules see.  The inventory is a
normalisation aid only - no rule compares the tree with it.

usage: gen_inventory.py [repo]   (development aid, not used by the checks)"""
import ast
import json
import os
import sys

sys.path.insert(0, os.path.dirname(os.path.dirname(os.path.abspath(__file__))))


from sa.normalize import fingerprint  # noqa: E402


def main():
    repo = sys.argv[1] if len(sys.argv) > 1 else '/repo'
    inv = {}
    root = os.path.join(repo, 'replicat')
    for dp, dn, fn in os.walk(root):
        dn[:] = sorted(d for d in dn if d not in ('tests', '__pycache__'))
        for f in sorted(fn):
            if not f.endswith('.py'):
                continue
            p = os.path.join(dp, f)
            rel = os.path.relpath(p, repo)
            tree = ast.parse(open(p, encoding='utf-8').read())
            funcs, consts, classes = [], [], []
            const_values = {}
            profiles = {}
            sources = {}

            def prof(q, node):
                a = node.args
                profiles[q] = {'params': [x.arg for x in a.posonlyargs + a.args + a.kwonlyargs], 'pshape': [len(a.posonlyargs), len(a.args), len(a.kwonlyargs), bool(a.vararg), bool(a.kwarg)], 'nargs': len(a.posonlyargs + a.args + a.kwonlyargs), 'async': isinstance(node, ast.AsyncFunctionDef), 'gen': any(isinstance(x, (ast.Yield, ast.YieldFrom)) for x in ast.walk(node)), 'size': sum(1 for _ in ast.walk(node)), 'tokens': fingerprint(node)}

            def rec(body, prefix, in_class):
                for st in body:
                    if isinstance(st, (ast.FunctionDef, ast.AsyncFunctionDef)):
                        q = prefix + st.name
                        funcs.append(q)
                        prof(q, st)
                        rec_nested(st, q + '.<locals>.')
                    elif isinstance(st, ast.ClassDef):
                        classes.append(prefix + st.name)
                        rec(st.body, prefix + st.name + '.', True)
                        if not prefix:
                            for m in st.body:
                                if isinstance(m, (ast.FunctionDef, ast.AsyncFunctionDef)):
                                    body = m.body[1:] if m.body and isinstance(m.body[0], ast.Expr) and isinstance(m.body[0].value, ast.Constant) and isinstance(m.body[0].value.value, str) else m.body
                                    rets = [n for n in ast.walk(m) if isinstance(n, ast.Return)]
                                    # single-exit methods of at least two statements can be recognised when their body was written
                                    # out inside a caller (sa/normalize.py re-outlines them)
                                    if len(body) >= 2 and len(rets) <= 1 and (not rets or rets[0] is body[-1]) and not any(isinstance(n, (ast.Yield, ast.YieldFrom)) for n in ast.walk(m)):
                                        sources[st.name + '.' + m.name] = ast.unparse(m)
                    elif isinstance(st, ast.Assign):
                        for t in st.targets:
                            if isinstance(t, ast.Name):
                                consts.append(prefix + t.id)
                                const_values[prefix + t.id] = ast.dump(st.value)[:400]
                    elif isinstance(st, ast.AnnAssign) and isinstance(st.target, ast.Name):
                        consts.append(prefix + st.target.id)
                    elif isinstance(st, (ast.If, ast.Try)):
                        for fld in ('body', 'orelse', 'finalbody'):
                            rec(getattr(st, fld, []) or [], prefix, in_class)
                        for h in getattr(st, 'handlers', []):
                            rec(h.body, prefix, in_class)

            def rec_nested(fn_node, prefix):
                stack = list(fn_node.body)
                while stack:
                    n = stack.pop()
                    if isinstance(n, (ast.FunctionDef, ast.AsyncFunctionDef)):
                        funcs.append(prefix + n.name)
                        prof(prefix + n.name, n)
                        rec_nested(n, prefix + n.name + '.<locals>.')
                        continue
                    if isinstance(n, (ast.ClassDef, ast.Lambda)):
                        continue
                    stack.extend(ast.iter_child_nodes(n))

            rec(tree.body, '', False)
            inv[rel] = {'functions': sorted(set(funcs)), 'constants': sorted(set(consts)), 'classes': sorted(set(classes)), 'profiles': profiles, 'const_values': const_values, 'sources': sources}
    out = os.path.join(os.path.dirname(os.path.dirname(os.path.abspath(__file__))), 'sa', 'inventory.json')
    json.dump(inv, open(out, 'w'), indent=1, sort_keys=True)
    print(out, sum(len(v['functions']) for v in inv.values()), 'functions', sum(len(v['constants']) for v in inv.values()), 'constants')


if __name__ == '__main__':
    main()
