#!/usr/bin/env python
"""Regenerate /verif/MANIFEST.json from the rule modules that exist.
A property is claimed iff /verif/sa/rules/cNN.py exists and is listed in READY."""
import importlib
import json
import os
import subprocess
import sys

VERIF = os.path.dirname(os.path.dirname(os.path.abspath(__file__)))
sys.path.insert(0, VERIF)

READY = os.environ.get('READY', '').split() or None

TITLES = {}
for l in open(os.path.join(VERIF, 'properties.jsonl')):
    p = json.loads(l)
    TITLES[p['id']] = p['title']

TECH = {
    'C01': 'static analysis: provenance terms + CFG dominance + writer/reader key-table agreement (custom ast checker)',
    'C02': 'static analysis: CFG path-outcome enumeration + dominance + provenance of chunk locations (custom ast checker)',
    'C03': 'static analysis: must-pass-through on a CFG with exception edges + exception-discipline scan + temp/replace typestate (custom ast checker)',
    'C04': 'static analysis: verify-before-use dominance + taint with sanitizer + handler discipline (custom ast checker)',
    'C05': 'static analysis: information-flow (taint) over provenance terms in encrypted mode (custom ast checker)',
    'C06': 'static analysis: guard dominance on the CFG + provenance per mode (custom ast checker)',
    'C07': 'static analysis: determinism of provenance terms + exists-before-upload dominance (custom ast checker)',
    'C08': 'static analysis: deletion-target provenance confinement + guard dominance (custom ast checker)',
    'C09': 'static analysis: slot enclosure, call-graph who-may-call, lock-set discipline (custom ast checker)',
    'C10': 'static analysis: symbolic interval/congruence bounds over the clang AST of the chunker + adapter typestate (custom checker)',
    'C11': 'static analysis: locality preconditions - constants agreement, provenance chain Python -> C++ (custom checker)',
    'C12': 'static analysis: retry-decorator coverage via call graph, rewind-before-reraise handler shape, delegation tables (custom ast checker)',
    'C13': 'static analysis: interface conformance tables, pagination def-use, URL taint (custom ast checker)',
    'C14': 'static analysis: derivation-graph extraction vs documented scheme table, JSON key tables (custom ast checker)',
    'C15': 'static analysis: same-origin of names, sort-key terms, dominance of refusal (custom ast checker)',
    'C16': 'static analysis: same-origin (signed == sent) provenance, SigV4 structure tables (custom ast checker)',
    'C17': 'static analysis: dominance of validation before upload, constructor guard closure per adapter parameter (custom ast checker)',
    'C18': 'static analysis: taint with sanitizer on the cache path, guard dominance (custom ast checker)',
    'C19': 'static analysis: order edges in main(), parser/coercer tables (custom ast checker)',
    'C20': 'static analysis: provenance per mode of every stream, lock sets, delegation shape (custom ast checker)',
}


def main():
    checks = []
    na = []
    claimed = []
    for i in range(1, 21):
        pid = f'C{i:02d}'
        path = os.path.join(VERIF, 'sa', 'rules', pid.lower() + '.py')
        if not os.path.exists(path) or (READY is not None and pid not in READY):
            na.append({'property_id': pid, 'reason': 'check under construction (rules designed in DESIGN.md section 4); not yet claimed'})
            continue
        mod = importlib.import_module(f'sa.rules.{pid.lower()}')
        claimed.append(pid)
        checks.append(
            {
                'property_id': pid,
                'quick_cmd': f'/venv/bin/python /verif/sa/check.py {pid} --tier quick',
                'thorough_cmd': f'/venv/bin/python /verif/sa/check.py {pid} --tier thorough',
                'evidence_file': f'/verif/evidence/{pid}.json',
                'replay_cmd_template': '/venv/bin/python /verif/sa/check.py --replay {path}',
                'engine': 'sa',
                'level_claimed': {
                    'category': 'other',
                    'text': (
                        f'Static analysis of the current /repo sources (nothing is executed). Decides the structural clauses of "{TITLES[pid]}" '
                        f'on every path / call site / table row: ' + mod.EXPLANATION + ' Does NOT decide: ' + mod.NOT_DECIDED + '.'
                    ),
                    'design_ref': f'DESIGN.md section 4, {pid}',
                },
                'level_note': 'Trusted base: ' + '; '.join(getattr(mod, 'TRUSTED', [])) + '. Assumptions: ' + '; '.join(getattr(mod, 'ASSUMPTIONS', [])) + '. Undecided clauses: ' + mod.NOT_DECIDED,
                'technique': TECH[pid],
            }
        )
    man = {
        'version': 1,
        'setup_cmd': '/venv/bin/python -m compileall -q /verif/sa',
        'hooks': {
            'guard': 'REPLICAT_VERIF',
            'enable': 'none needed: checks are static and never execute /repo',
            'baseline_off_cmd': 'cd /repo && /venv/bin/python -m pytest -ra -q -p no:cacheprovider --timeout=900 --continue-on-collection-errors',
            'source_commits': [],
            'add_only': True,
        },
        'engines': [
            {
                'name': 'sa',
                'path': '/verif/sa',
                'serves_properties': claimed,
                'kind_free_text': 'repository-specific static analysis: Python ast + own CFG/dominators/provenance terms; clang JSON AST for src/adapters.cpp',
            }
        ],
        'checks': checks,
        'not_applicable': na,
        'notes': 'All checks are static analyses that re-read /repo on every run; exit 0 = holds (KNOWN-FINDING lines allowed), exit 1 = VIOLATION, exit 2 = ANALYSIS-ERROR. '
        'Genuine defects found and repaired are recorded in /verif/known_findings.json (fixed: entries).',
    }
    with open(os.path.join(VERIF, 'MANIFEST.json'), 'w') as fh:
        json.dump(man, fh, indent=1)
    print('claimed', claimed)


if __name__ == '__main__':
    main()
