#!/usr/bin/env python
"""Run checks against a seeded patch applied to a scratch copy of /repo (development
aid; never used by the registered checks).  usage: seedrun.py <patch.diff> C03 [C02 ...]"""
import os, shutil, subprocess, sys, tempfile

def main():
    patch = os.path.abspath(sys.argv[1])
    props = sys.argv[2:]
    tmp = tempfile.mkdtemp(prefix='seedrun_', dir='/tmp')
    try:
        subprocess.run('git -C /repo archive HEAD | tar -x -C ' + tmp, shell=True, check=True)
        r = subprocess.run(['git', 'apply', '--unsafe-paths', '--directory=' + tmp, patch], capture_output=True, text=True, cwd='/')
        if r.returncode != 0:
            r = subprocess.run(['patch', '-p1', '-s', '-i', patch], cwd=tmp, capture_output=True, text=True)
            if r.returncode != 0:
                print('PATCH-FAILED', r.stdout, r.stderr)
                return 3
        for p in props:
            r = subprocess.run(['/venv/bin/python', '/verif/sa/check.py', p, '--repo', tmp, '--no-evidence'], capture_output=True, text=True)
            lines = [l for l in r.stdout.splitlines() if l.startswith(('FAIL', 'VIOLATION', 'ANALYSIS-ERROR', 'KNOWN', '  C', '       '))]
            print(f'--- {p}: exit={r.returncode}')
            for l in lines[:14]:
                print('   ', l[:260])
            if r.returncode == 2 and not lines:
                print(r.stdout[-800:], r.stderr[-800:])
    finally:
        shutil.rmtree(tmp, ignore_errors=True)

if __name__ == '__main__':
    sys.exit(main())
