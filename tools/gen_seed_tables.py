#!/usr/bin/env python
"""Markdown matrix "which check reports which stored seeded defect" (for DESIGN.md section 12); development aid.
usage: gen_seed_tables.py <round-suffix: '' | b | c>"""
import concurrent.futures as cf, glob, json, os, re, shutil, subprocess, sys, tempfile

ROOT = os.path.dirname(os.path.dirname(os.path.abspath(__file__)))
suffix = sys.argv[1] if len(sys.argv) > 1 else ''


def one(d):
    meta = json.load(open(os.path.join(d, 'meta.json')))
    tmp = tempfile.mkdtemp(prefix='tbl_', dir='/tmp')
    try:
        subprocess.run('git -C /repo archive HEAD | tar -x -C ' + tmp, shell=True, check=True)
        subprocess.run(['git', 'apply', '--unsafe-paths', '--directory=' + tmp, os.path.join(d, 'patch.diff')], capture_output=True, cwd='/')
        r = subprocess.run(['/venv/bin/python', os.path.join(ROOT, 'sa', 'check.py'), meta['property'], '--repo', tmp, '--no-evidence'], capture_output=True, text=True)
        rules = sorted({m.group(1) for m in re.finditer(r'^FAIL (C\d\d\.R\w+)', r.stdout, re.M)})
    finally:
        shutil.rmtree(tmp, ignore_errors=True)
    others = sorted(p for p, v in meta.get('checks_flagging', {}).items() if v.get('exit') == 1 and p != meta['property'])
    fc = meta.get('first_contact', {})
    return os.path.basename(d), meta, rules, others, fc


dirs = sorted(d for d in glob.glob(os.path.join(ROOT, 'seeded', '*')) if re.fullmatch(r'C\d\d-\d' + suffix, os.path.basename(d)))
with cf.ThreadPoolExecutor(12) as ex:
    rows = list(ex.map(one, dirs))
hdr = '| seed | change (from the seeder\'s summary) | first contact (own check) | reported now by (own check) | also reported by |\n|------|------|------|------|------|'
print(hdr)
for name, meta, rules, others, fc in rows:
    summ = (meta.get('breaks') or meta.get('summary') or '').replace('\n', ' ').replace('|', '/')[:150]
    first = '' if not fc else ('reported' if fc.get('own_property_check_reported') else 'missed')
    print(f'| {name} | {summ} | {first} | {" ".join(rules) or "-"} | {" ".join(others)} |')
