#!/usr/bin/env python
"""Show what sa/normalize.py does to a tree: unified diff between the unparsed raw and
normalised modules, plus the normaliser's log.  usage: show_normalized.py [repo] [file-substring]"""
import ast, difflib, os, sys
sys.path.insert(0, os.path.dirname(os.path.dirname(os.path.abspath(__file__))))
from sa.loader import Corpus

repo = sys.argv[1] if len(sys.argv) > 1 else '/repo'
flt = sys.argv[2] if len(sys.argv) > 2 else ''
raw = Corpus(repo, normalize=False)
nor = Corpus(repo)
print('stats', nor.normalization.stats)
for l in nor.normalization.log:
    print('  ', l)
for rel in sorted(raw.modules):
    if flt not in rel:
        continue
    a = ast.unparse(raw.modules[rel].tree).splitlines()
    b = ast.unparse(nor.modules[rel].tree).splitlines()
    d = list(difflib.unified_diff(a, b, rel, rel + ' (normalised)', lineterm='', n=2))
    if d:
        print('\n'.join(d))
